"""C32 -- spec/Framing: SSE and HTTP-stream framing deliver each message intact.

Design side (TLC, exhaustive).  spec/Framing/Framing.tla transcribes (a) the client parsers from the standards --
WHATWG EventSource stream interpretation (lines end at CRLF | LF | CR, comment lines, first-colon split, one leading
space stripped, data buffer joined by LF, dispatch on the empty line, event/id/retry, BOM), the LF-delimited JSON
record splitter, the uvarint length-delimited decoder -- and (b) the framing the handlers do (handler_sse.go:
"\r\n" once, then "data: " + msg + "\n\n"; handler_http_stream.go: msg + "\n", or protocol.ProtobufDataEncoder),
plus protocol.Raw.MarshalJSON (the JSON reply encoder deletes LF, and only LF, from embedded payloads) and the
proposed repair of the SSE framing (one "data: " line per CR/LF/CRLF separated segment).  Bytes are naturals.
Invariants are EXACT characterisations, so nothing registered is expected to fail:
  Parse(Frame(msgs)) = msgs  <=>  no message contains an unsafe byte, per framing; the unsafe classes are ASSUMEd:
  SSE as is {LF, CR}; SSE split: none up to JSON whitespace ({CR} byte-exact: CR arrives as LF); LF-delimited {LF} and
  the empty message; varint: none.  Through the JSON reply encoder only CR still reaches the SSE framing (ReachSSE).
Bounds: quick = every single message of length <=4 and every pair of length <=2 over {LF CR : SP d { " x}
(quick.cfg with Table = TRUE, 10042 rows incl. 31 EventSource conformance vectors); thorough adds singles <=5 / pairs <=3 (8 symbols),
pairs <=4 over {LF CR : SP x}, triples <=2 over {LF CR : SP d x}.

Code side.  (F) every enumerated row (wire bytes + parse result per framing, cross-parses of the wires by the other
parsers, conformance vectors) is replayed into the harness's own streaming Go parsers for every 2-chunking and byte
by byte, into the real protocol.ProtobufDataEncoder and protocol.Raw.  (replay) a real Node behind httptest with
the real SSEHandler (GET cf_connect and POST), HTTPStreamHandler (JSON and Protobuf) and EmulationHandler: one
connection per (transport, byte class, field): publication data, connect data, subscribe data, conn/chan info,
Send() messages, RPC results (raw JSON / raw bytes), channel names, tags, error messages, disconnect reasons
(strings), pings, multi-message flushes (write delay), 100 KiB messages, Protobuf message lengths across
127/128 and 16383/16384 (2097151/2097152: the real encoder directly), seed-dependent random JSON with random SP/TAB/LF/CR/CRLF between
tokens.  The body is read incrementally; ground truth = the messages OnTransportWrite saw.  Checked: same number of
records, each decodes to the same message (JSON: equal JSON values + accepted by protocol's reply decoder; Protobuf:
equal bytes), in order; published payloads arrive equal end to end; every message handed to the transport arrives
within 10 s on an otherwise idle connection ("held-back").  (T) recorded bodies <= 1500 bytes are parsed again by
the SPEC's parsers in TLC (FramingWire.tla); its verdicts must agree with the Go verdicts, and it names the framing
operator that produced exactly these bytes (asis/split/both; "neither" = drift).

Genuine defect found on the unchanged tree (DESIGN 10 item 9): SSE + raw CR between JSON tokens of any raw-JSON
field -> signatures  sse:json:raw-(CR|CRCR|CRLF|LFCR)(-large|-batch|-random-whitespace)?-in-(payload|connect-data|
subscribe-data|conn-info|message-data|rpc-result).  With the repair (see the lead's report; verified in a scratch
worktree) the check is green and the bodies are recognised as the spec's SSEFrameSplit.

Mutations (scratch worktrees with the repair applied; each must turn the check red):
  M1  SSE terminator "\n\n" -> "\n"                                            caught (VIOLATION, all sse classes)
  M2  "data: " -> "data:"  -- equivalent for the property (server messages start with "{"; the one stripped
      space is JSON whitespace); reported as DRIFT exit 2 (body is no framing of the spec), by design not a violation
  M3  http_stream JSON: LF dropped after the last message of a multi-message flush   caught (batch scenarios)
  M4  SSE: messages of one flush joined into one data line                           caught (batch scenarios)
  M5  http_stream Protobuf: a byte appended after the length prefix was computed     caught
  M6a SSE: flush skipped for the first batch                                         caught (held-back)
  M6b http_stream: flush skipped for the second batch                                caught (held-back)
  M7  SSE: ping frames written without framing                                       caught (ping scenario)
  M8  http_stream Protobuf: data encoder hoisted out of the loop, never reset        caught
  M9  repair: segment after the last CR/LF dropped                                   caught
  M10 repair: continuation lines without "data: "                                    caught
  M11 http_stream JSON: delimiter written before instead of after each message       caught
  M12 repair reverted (= the original defect)                                        caught
  M13 http_stream Protobuf: encoder.FinishNoCopy() + PutDataEncoder BEFORE w.Write (the written slice aliases a
      pooled buffer that another connection refills while this Write is stalled)     caught by the stall probe
      (signature http_stream:protobuf:stalled-write-in-payload); missed by the HTTP replay alone

Stall probe (mode "stall", both tiers): the real HTTPStreamHandler (Protobuf and JSON) and SSEHandler serve two
in-process connections each with the harness's own http.ResponseWriter + Flusher + SetWriteDeadline whose Write can
park BEFORE it reads its argument; per round (20 quick / 200 thorough per transport, stalled side alternating,
seed-dependent length): publish to A, wait until A's Write is entered, publish a message of the same length to B,
wait for B's record, release A; both records must decode to their own connection's message.  GOMAXPROCS(1) for the
probe (sync.Pool per-P slot => deterministic reuse), restored afterwards.
"""
import json
import os

from lib import vf

ALPHABET = [10, 13, 58, 32, 100, 123, 34, 120]      # LF CR ':' ' ' 'd' '{' '"' 'x'  (as in spec/Framing/*.cfg)
MAX_WIRE = 1500                                      # response bodies up to this size are re-parsed by TLC


def _jvm(opts):
    """TLC runs of a few thousand states are dominated by JIT warm-up and GC threads on a loaded machine."""
    old = os.environ.get('JAVA_TOOL_OPTIONS')
    os.environ['JAVA_TOOL_OPTIONS'] = opts
    return old


def _jvm_restore(old):
    if old is None:
        os.environ.pop('JAVA_TOOL_OPTIONS', None)
    else:
        os.environ['JAVA_TOOL_OPTIONS'] = old


def c32(c):
    quick = c.tier == 'quick'
    # ---- 1. the design: Parse(Frame(msgs)) = msgs exactly when no unsafe byte class occurs (TLC, exhaustive)
    old = _jvm('-XX:ParallelGCThreads=4')
    try:
        runs = [] if quick else ['thorough.cfg', 'thorough5.cfg', 'triples.cfg']
        for cfg in runs:
            r = c.tlc_exhaustive('Framing', 'Framing', cfg, timeout=1500)
            c.log('TLC %s: %d message lists, round trip <=> no unsafe class; ASSUMEd classes hold' % (cfg, r['distinct']))
        # ---- 2. the table: wires and parse results for small lists + EventSource conformance vectors
        r = c.tlc_exhaustive('Framing', 'Framing', 'quick.cfg', dump=True, timeout=600)
    finally:
        _jvm_restore(old)
    rows = c.dump_states(r)
    first = [x for x in rows if x['msgs'] == [] and x['vec'] == []]
    if len(first) != 1 or not isinstance(first[0]['res'].get('unsafe'), dict):
        raise vf.Inconclusive('table dump has no class record')
    unsafe = first[0]['res']['unsafe']
    c.log('TLC table: %d rows; unsafe classes %s' % (len(rows), json.dumps(unsafe, sort_keys=True)))
    expect = {'sse': [10, 13], 'split': [], 'nd': [10], 'pb': [], 'reachSse': [13], 'reachSplit': [], 'reachNd': []}
    if {k: sorted(v) for k, v in unsafe.items()} != expect:
        raise vf.Inconclusive('unsafe classes computed by TLC changed: %r' % unsafe)

    binp = c.go_build('framing')
    tres = c.harness(binp, 'table', rows)
    c.absorb(tres)
    c.log('table replay: %d rows into the harness parsers (%d parser evaluations, every 2-chunking), '
          'the real ProtobufDataEncoder and Raw.MarshalJSON' % (tres['executed'], tres['counters'].get('parser_evals', 0)))

    # ---- 3. the real handlers
    rres = c.harness(binp, 'replay', {'alphabet': ALPHABET, 'unsafe': unsafe, 'max_wire': MAX_WIRE}, timeout=900)
    c.absorb(rres)
    outcomes = rres['extra']['outcomes']
    bad = [o for o in outcomes if not o['ok']]
    c.log('replay: %d connections through SSEHandler/HTTPStreamHandler, %d server messages, %d with problems'
          % (rres['executed'], rres['counters'].get('messages', 0), len(bad)))
    for o in bad[:6]:
        c.log('   %s %s: %s' % (o['id'], o['sig'], '; '.join(o.get('problems') or [])[:300]))
    if bad:
        c.log('failing signatures: ' + ' '.join(sorted({o['sig'] for o in bad})))

    # ---- 3b. stalled writes: the bytes handed to ResponseWriter.Write stay this connection's message while
    #          another connection of the same transport is served (in process, own ResponseWriter, GOMAXPROCS(1))
    sres = c.harness(binp, 'stall', {'rounds': 20 if quick else 200}, timeout=600)
    c.absorb(sres)
    c.log('stall probe: %d rounds (hs-pb, hs-json, sse): a Write parked before consuming its argument while the other '
          'connection receives a message of the same length; %d violations' % (sres['executed'], len(sres.get('violations') or [])))

    # ---- 4. the recorded response bodies, parsed by the SPEC's parsers (trace validation, code -> spec)
    wires = rres['extra']['wires'] or []
    by_id = {o['id']: o for o in outcomes}
    d = c._specdir('Framing')
    with open(os.path.join(d, 'wire.ndjson'), 'w') as fh:
        for w in wires:
            fh.write(json.dumps(w, separators=(',', ':')) + '\n')
    old = _jvm('-XX:ParallelGCThreads=2')
    try:
        tr = c.tlc_exhaustive('Framing', 'FramingWire', 'wire.cfg', dump=True, timeout=600, workers=4)
    finally:
        _jvm_restore(old)
    verdicts = [s['res'] for s in c.dump_states(tr) if s['res'] != []]
    variants = {}
    agree = 0
    for v in verdicts:
        o = by_id.get(v['id'])
        if o is None:
            c.drifts.append({'what': 'TLC verdict for unknown wire %r' % v['id']})
            continue
        # the Go verdict has more in it (payload comparison, held-back); compare the framing part only
        go_framing_ok = not any(p.split(':')[0] in ('count', 'content', 'garbage', 'event-fields') for p in (o.get('problems') or []))
        if v['ok'] != go_framing_ok:
            c.drifts.append({'what': 'spec parser and harness parser disagree on the body of scenario %s (%s): TLC ok=%s, harness problems=%s'
                                     % (v['id'], o['sig'], v['ok'], o.get('problems'))})
        else:
            agree += 1
        if not v['ok']:
            c.violation(o['sig'], 'the response body of scenario %s, parsed by the specification\'s %s parser, does not yield the messages the server '
                                  'handed to the transport (%d parsed, %d written)' % (v['id'], v['t'], v['nparsed'], v['nmsgs']),
                        {'scenario': v['id'], 'by': 'TLC FramingWire'})
        variants.setdefault(v['t'], {}).setdefault(v['variant'], 0)
        variants[v['t']][v['variant']] += 1
        if v['variant'] == 'neither':
            c.drifts.append({'what': 'scenario %s: the body is not what any framing operator of the spec produces from the server messages' % v['id']})
    if len(verdicts) != len(wires):
        c.drifts.append({'what': 'TLC judged %d of %d recorded bodies' % (len(verdicts), len(wires))})
    c.log('wire validation by TLC: %d bodies, %d verdicts agree with the harness; framing variants seen: %s'
          % (len(wires), agree, json.dumps(variants, sort_keys=True)))

    c.cov['traces_validated_against_impl'] = rres['completed'] + len(verdicts) + sres['completed']
    c.cov['evaluations'] = tres['executed'] + rres['executed'] + sres['executed']
    c.cov['distinct_nontrivial'] = rres['nontrivial']
    c.cov['exhaustive'] = True
    c.cov['framing_variants'] = variants
    c.cov['unsafe_classes'] = unsafe
    c.cov['rule'] = ('model: every list of <=2 messages (quick: single messages of length <=4, pairs of length <=2; thorough: singles <=5 / pairs <=3 '
                     'over the 8-symbol alphabet, pairs <=4 over {LF,CR,:,SP,x}, triples <=2 over {LF,CR,:,SP,d,x}) through every framing and its standard parser; '
                     'code: one connection per (transport, byte class, field); non-trivial = distinct (transport, protocol, class, field) signatures '
                     'whose messages went through a real handler and were compared record by record')
    c.cov['samples'] = (tres['samples'] or [])[:1] + (rres['samples'] or [])[:2]
    c.assumptions += [
        'a standards-conforming client: WHATWG EventSource stream interpretation for SSE; LF-separated records with empty lines skipped for the JSON '
        'http_stream; uvarint length-delimited records for the Protobuf http_stream (transcribed in spec/Framing, the Go parsers of the harness are '
        'checked against them on every enumerated wire and every 2-chunking)',
        '"decodes to the same message" for JSON = equal as JSON values (raw CR/LF between tokens are insignificant whitespace); for Protobuf = equal bytes',
        'payloads of the JSON protocol are valid UTF-8 JSON texts (invalid JSON is rejected by the encoder and never reaches the framing layer)',
        'the list of server messages is what OnTransportWrite saw, in that order (single writer goroutine per connection)',
        'HTTP/1.1 chunked transfer over loopback (httptest); HTTP/2 not exercised',
    ]


CHECKS = {'C32': c32}

META = {'C32': dict(
    level='model_checking',
    text='The WHATWG EventSource stream interpretation, the LF-delimited and the uvarint length-delimited record decoders, and the '
         'framing done by SSEHandler / HTTPStreamHandler (plus the JSON reply encoder\'s treatment of embedded payloads) are transcribed '
         'into TLA+; TLC checks over every bounded message list that Parse(Frame(msgs)) = msgs holds exactly when no message contains an '
         'unsafe byte class, and the unsafe classes are asserted (SSE: LF, CR; newline-delimited: LF; varint: none; only CR survives the '
         'JSON encoder). Every enumerated wire is replayed into the harness parsers (all 2-chunkings) and the real Protobuf data encoder; '
         'payloads of every class are then sent through the real handlers over HTTP, the body is parsed with those parsers and compared '
         'message by message with what the server handed to the transport and with what was published; recorded bodies are parsed once more '
         'by the specification itself in TLC.',
    note='Exhaustive for the framing design within the bounds (quick: singles <=4, pairs <=2 over 8 byte classes; thorough: singles <=5, '
         'pairs <=3, pairs <=4 over 5 classes, triples <=2 over 6 classes); the real handlers are sampled by class: one connection per (transport, byte '
         'class, field) plus seed-dependent random JSON whitespace, not all byte strings. HTTP/1.1 only. Trusted: TLC, lib/tlaparse.py, the '
         'comparison code of the harness, encoding/json as the JSON equality oracle, OnTransportWrite as the list of server messages.',
    technique='TLA+ transcription of the client parsers and the handlers\' framing + TLC exhaustive enumeration; function-table replay into the harness '
              'parsers and the real encoders; replay through the real HTTP handlers; recorded response bodies validated by TLC',
    design_ref='DESIGN.md 4.4, 8 (C32), 10 item 9')}
