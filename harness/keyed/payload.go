package main

import (
	"bytes"
	"encoding/binary"
	"encoding/json"
	"fmt"
	"math/rand"
	"strings"
	"sync"
	"unicode/utf8"

	"github.com/centrifugal/centrifuge"
	"github.com/centrifugal/protocol"
	fdelta "github.com/shadowspore/fossil-delta"
)

func newRng(seed int64) *rand.Rand { return rand.New(rand.NewSource(seed)) }

// ---------------------------------------------------------------- payloads
//
// Payload n of a run is a distinct document of 90-300 bytes that shares long substrings with the other payloads
// of the run (so the server's fossil Create yields real deltas) and carries characters that stress the JSON string
// escaping of delta data (quotes, backslashes, control escapes, HTML characters, 2-4 byte UTF-8, U+2028) or, for
// the Protobuf transport, arbitrary byte values including the characters of the fossil delta grammar.

type payloads struct {
	mu     sync.Mutex
	rng    *rand.Rand
	binary bool
	ascii  bool // JSON payloads without multi-byte characters
	shared [3]string
	byID   map[int][]byte
}

var jsonSpice = []string{`\"q\"`, `\\`, `\n`, `\t`, `<b>&amp;</b>`, `é`, `ß→∑`, " ", `😀`, `é`, `'`, `/`, `@1,2:3;`, `\r`, `%`, `{}[]`}

var jsonSpiceASCII = []string{`\"q\"`, `\\`, `\n`, `\t`, `<b>&amp;</b>`, `\u00e9`, `'`, `/`, `@1,2:3;`, `\r`, `%`, `{}[]`, `\u2028`}

func newPayloads(seed int64, binaryBlobs, asciiOnly bool) *payloads {
	p := &payloads{rng: rand.New(rand.NewSource(seed)), binary: binaryBlobs, ascii: asciiOnly, byID: map[int][]byte{}}
	for i := range p.shared {
		n := 24 + p.rng.Intn(40)
		var sb strings.Builder
		for sb.Len() < n {
			if binaryBlobs {
				sb.WriteByte(byte(p.rng.Intn(256)))
			} else if p.rng.Intn(6) == 0 {
				sb.WriteString(p.spice())
			} else {
				sb.WriteByte("abcdefghijklmnopqrstuvwxyz0123456789 -_"[p.rng.Intn(39)])
			}
		}
		p.shared[i] = sb.String()
	}
	return p
}

func (p *payloads) spice() string {
	if p.ascii {
		return jsonSpiceASCII[p.rng.Intn(len(jsonSpiceASCII))]
	}
	return jsonSpice[p.rng.Intn(len(jsonSpice))]
}

// get returns payload id of the similar class (created on first use; stable afterwards).
func (p *payloads) get(id int) []byte { return p.getKind(id, "sim") }

// getKind returns payload id, created on first use with the given class: "sim" = shares long substrings with the
// other similar payloads (fossil patches are smaller than the payload), "unrel" = short and unrelated (no patch to it
// or from it is smaller than the target: the server has to fall back to the full data).
func (p *payloads) getKind(id int, kind string) []byte {
	p.mu.Lock()
	defer p.mu.Unlock()
	if b, ok := p.byID[id]; ok {
		return b
	}
	var b []byte
	if kind == "unrel" {
		const alnum = "ABCDEFGHIJKLMNOPQRSTUVWXYZ0123456789"
		r := make([]byte, 16+p.rng.Intn(6))
		for i := range r {
			if p.binary {
				r[i] = byte(p.rng.Intn(256))
			} else {
				r[i] = alnum[p.rng.Intn(len(alnum))]
			}
		}
		if p.binary {
			var hdr [4]byte
			binary.BigEndian.PutUint32(hdr[:], uint32(id))
			b = append(hdr[:], r...)
		} else {
			b = []byte(fmt.Sprintf(`{"id":%d,"R":"%s"}`, id, r))
		}
		p.byID[id] = b
		return b
	}
	if p.binary {
		var buf bytes.Buffer
		var hdr [4]byte
		binary.BigEndian.PutUint32(hdr[:], uint32(id))
		buf.Write(hdr[:])
		order := p.rng.Perm(3)
		for _, i := range order[:2+p.rng.Intn(2)] {
			buf.WriteString(p.shared[i])
			n := p.rng.Intn(12)
			for j := 0; j < n; j++ {
				buf.WriteByte(byte(p.rng.Intn(256)))
			}
		}
		buf.WriteString("\n@0,;:\x00\xff")
		b = buf.Bytes()
	} else {
		order := p.rng.Perm(3)
		k := 2 + p.rng.Intn(2)
		parts := make([]string, 0, k)
		for _, i := range order[:k] {
			parts = append(parts, fmt.Sprintf(`"f%d":"%s%s"`, i, p.shared[i], p.spice()))
		}
		b = []byte(fmt.Sprintf(`{"id":%d,%s,"n":[%d,%d]}`, id, strings.Join(parts, ","), p.rng.Intn(1000), id*7))
		if !json.Valid(b) {
			panic("generated invalid JSON payload: " + string(b))
		}
	}
	p.byID[id] = b
	return b
}

// idOf finds the published payload equal to b (0 = none).
func (p *payloads) idOf(b []byte) int {
	p.mu.Lock()
	defer p.mu.Unlock()
	for id, x := range p.byID {
		if bytes.Equal(x, b) {
			return id
		}
	}
	return 0
}

// ---------------------------------------------------------------- the client's delta applier (observable-only)

// holder is what an SDK keeps per subscription (or per key): the bytes of the last publication.
type holder struct {
	held []byte
	has  bool
}

type applied struct {
	Delta bool   // frame was marked delta
	Data  []byte // reconstructed payload (nil on failure)
	Err   string // why reconstruction failed ("" = fine)
}

// wireData decodes the data field of a publication as an SDK does: with the JSON protocol and negotiated fossil
// delta every publication's data is a JSON string whose UTF-8 bytes are the payload or the fossil delta.
func wireData(proto centrifuge.ProtocolType, negotiated bool, pub *protocol.Publication) ([]byte, error) {
	if proto == centrifuge.ProtocolTypeJSON && negotiated {
		var s string
		if err := json.Unmarshal(pub.Data, &s); err != nil {
			return nil, fmt.Errorf("delta-negotiated JSON publication data is not a JSON string: %v (data %.80q)", err, string(pub.Data))
		}
		return []byte(s), nil
	}
	return pub.Data, nil
}

// apply feeds one publication to the holder exactly like centrifuge-js applyDeltaIfNeeded.
func (h *holder) apply(proto centrifuge.ProtocolType, negotiated bool, pub *protocol.Publication) applied {
	if !negotiated {
		h.held, h.has = append([]byte(nil), pub.Data...), true
		return applied{Data: h.held}
	}
	data, err := wireData(proto, negotiated, pub)
	if err != nil {
		return applied{Delta: pub.Delta, Err: err.Error()}
	}
	if !pub.Delta {
		h.held, h.has = append([]byte(nil), data...), true
		return applied{Data: h.held}
	}
	if !h.has {
		return applied{Delta: true, Err: "delta publication delivered while the client holds no payload to apply it to"}
	}
	out, err := fdelta.Apply(h.held, data)
	if err != nil {
		return applied{Delta: true, Err: "fossil Apply failed on the payload the client holds: " + err.Error()}
	}
	h.held = out
	return applied{Delta: true, Data: out}
}

// realDeltaPossible tells whether fossil would produce a patch smaller than the payload (the server falls back to
// the full payload otherwise); used only to accept a full frame where the reference expects a delta.
func realDeltaPossible(base, target []byte, jsonProto bool) bool {
	patch := fdelta.Create(base, target)
	// with the JSON protocol the patch travels inside a JSON string: it must be valid UTF-8
	return len(patch) < len(target) && (!jsonProto || utf8.Valid(patch))
}
