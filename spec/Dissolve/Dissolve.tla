------------------------------ MODULE Dissolve ------------------------------
(* C40: internal/dissolve -- Dissolver = unbounded FIFO of jobs (queue.go) +
   numWorkers goroutines (dissolve.go: runWorker).

     runWorker:  for { job, ok := queue.Wait()
                       if !ok { if queue.Closed() { break }; continue }
                       err := job()
                       if err != nil { runtime.Gosched(); queue.Add(job) } }
     queue.Wait: lock; closed -> (nil,false); cnt != 0 -> unlock; return Remove()
                 else cond.Wait(); unlock; return Remove()        (TWO critical sections)
     queue.Close: closed = true; cnt = 0; nodes = nil; Broadcast   -- queued jobs are DISCARDED
     queue.Add:  closed -> false (job dropped); else append; Signal

   One action per critical section of the queue mutex; running a job is two
   steps (Start, End) because it is the observable part.  What the statement
   of C40 can demand of this design, and what is checked here:
     * while the dissolver is open every submitted job is in the queue, held by a
       worker, or has succeeded (nothing is lost), a failed run puts the job
       back, and under fairness every job eventually succeeds or the dissolver
       is closed (Submitted ~> Succeeded \/ closed);
     * a job that succeeded is never run again; one job never runs twice at once;
     * once Close has taken effect no job is dequeued and no failed job is
       queued again; Close discards the queue atomically, so a job that was
       QUEUED at Close never starts (QueuedAtCloseNeverStarts); the only runs
       that can still START are those of jobs a worker had already removed from
       the queue (at most one per worker);
     * no lost wake-up: a queued job always has a worker about to look at the
       queue (SomeoneWillLook) -- this rests on Wait checking "empty" and parking
       in ONE critical section (AtomicWait).
   "Every job submitted before Close runs until success" in the absolute sense
   does not hold -- Close discards the queue ("Jobs will be lost after closing",
   dissolve.go) -- and cannot hold together with "nothing runs after Close"
   unless Close waited for the queue to drain.  StrongLiveness below states it;
   TLC refutes it (strong.cfg) -- documented, not part of the verdict.         *)
EXTENDS Integers, Sequences, FiniteSets, TLC

CONSTANTS
  Workers,      \* e.g. {1, 2}
  Jobs,         \* e.g. {1, 2, 3}
  MaxFail,      \* failures per job
  AllowClose,   \* the closer exists
  AtomicWait    \* TRUE: queue.Wait as coded (closed / empty check and the park on the condition variable are ONE critical
                \* section).  FALSE: a variant in which they are separate critical sections (check closed; try Remove; then lock
                \* and park) -- kept to show what the design relies on: with it a Submit landing between the empty check and the
                \* park is not signalled to anybody (lost wake-up, lostwake.cfg gives the counterexample)

VARIABLES
  q, closed,
  wpc, wjob,          \* worker pc: "wait" | "blocked" | "remove" | "chk" | "run" | "running" | "requeue" | "exit"
  spc, sjob,          \* submitter: "idle" | "add" | "ret" ; job being submitted
  sres,               \* result of the Submit in progress
  cpc,                \* closer: "idle" | "closing" | "ret" | "done"
  submitted,          \* jobs whose Submit returned success (ghost)
  fails, done,        \* per job: failed runs so far, succeeded
  lateStarts,         \* per worker: runs started after Close took effect (ghost)
  discarded,          \* jobs that were in the queue when Close took effect: Close discards them atomically (ghost)
  step

core == <<q, closed, wpc, wjob, spc, sjob, sres, cpc, submitted, fails, done, lateStarts, discarded>>
vars == <<core, step>>

NoJob == 0

Init ==
  /\ q = <<>> /\ closed = FALSE
  /\ wpc = [w \in Workers |-> "wait"] /\ wjob = [w \in Workers |-> NoJob]
  /\ spc = "idle" /\ sjob = NoJob /\ sres = FALSE
  /\ cpc = "idle"
  /\ submitted = {} /\ fails = [j \in Jobs |-> 0] /\ done = [j \in Jobs |-> FALSE]
  /\ lateStarts = [w \in Workers |-> 0] /\ discarded = {}
  /\ step = [act |-> "Init"]

Blocked == {w \in Workers : wpc[w] = "blocked"}
\* cond.Signal: one of the waiting workers (if any) returns from cond.Wait
Signal(pc) == IF Blocked = {} THEN {pc}
              ELSE {[pc EXCEPT ![w] = "remove"] : w \in Blocked}
Broadcast(pc) == [w \in Workers |-> IF pc[w] = "blocked" THEN "remove" ELSE pc[w]]

---------------------------------------------------------------------------
(* Submit *)
S_Begin(j) ==
  /\ spc = "idle" /\ spc' = "add" /\ sjob' = j
  /\ UNCHANGED <<q, closed, wpc, wjob, sres, cpc, submitted, fails, done, lateStarts, discarded>>
  /\ step' = [act |-> "SubB", j |-> j]

S_Add ==
  /\ spc = "add" /\ spc' = "ret"
  /\ IF closed
       THEN sres' = FALSE /\ UNCHANGED <<q, wpc, submitted>>
       ELSE /\ sres' = TRUE /\ q' = Append(q, sjob) /\ submitted' = submitted \cup {sjob}
            /\ wpc' \in Signal(wpc)
  /\ UNCHANGED <<closed, wjob, sjob, cpc, fails, done, lateStarts, discarded>>
  /\ step' = [act |-> "S_Add"]

S_End ==
  /\ spc = "ret" /\ spc' = "idle" /\ sjob' = NoJob /\ sres' = FALSE
  /\ UNCHANGED <<q, closed, wpc, wjob, cpc, submitted, fails, done, lateStarts, discarded>>
  /\ step' = [act |-> "SubE", j |-> sjob, ok |-> sres]

---------------------------------------------------------------------------
(* workers *)
W_Wait(w) ==
  /\ wpc[w] = "wait"
  /\ wpc' = [wpc EXCEPT ![w] = IF closed THEN "chk"
                                ELSE IF AtomicWait THEN (IF q # <<>> THEN "remove" ELSE "blocked")
                                ELSE "tryremove"]
  /\ UNCHANGED <<q, closed, wjob, spc, sjob, sres, cpc, submitted, fails, done, lateStarts, discarded>>
  /\ step' = [act |-> "W_Wait", w |-> w]

\* only with AtomicWait = FALSE: the fast path "if job, ok := q.Remove(); ok { return }" in its own critical section ...
W_TryRemove(w) ==
  /\ wpc[w] = "tryremove"
  /\ IF q = <<>>
       THEN wpc' = [wpc EXCEPT ![w] = "parking"] /\ UNCHANGED <<q, wjob>>
       ELSE wpc' = [wpc EXCEPT ![w] = "run"] /\ wjob' = [wjob EXCEPT ![w] = Head(q)] /\ q' = Tail(q)
  /\ UNCHANGED <<closed, spc, sjob, sres, cpc, submitted, fails, done, lateStarts, discarded>>
  /\ step' = [act |-> "W_TryRemove", w |-> w]
\* ... and then "q.mu.Lock(); q.cond.Wait()" whatever happened in between
W_Park(w) ==
  /\ wpc[w] = "parking"
  /\ wpc' = [wpc EXCEPT ![w] = "blocked"]
  /\ UNCHANGED <<q, closed, wjob, spc, sjob, sres, cpc, submitted, fails, done, lateStarts, discarded>>
  /\ step' = [act |-> "W_Park", w |-> w]

\* queue.Remove(): cnt == 0 -> (nil, false)
W_Remove(w) ==
  /\ wpc[w] = "remove"
  /\ IF q = <<>>
       THEN wpc' = [wpc EXCEPT ![w] = "chk"] /\ UNCHANGED <<q, wjob>>
       ELSE wpc' = [wpc EXCEPT ![w] = "run"] /\ wjob' = [wjob EXCEPT ![w] = Head(q)] /\ q' = Tail(q)
  /\ UNCHANGED <<closed, spc, sjob, sres, cpc, submitted, fails, done, lateStarts, discarded>>
  /\ step' = [act |-> "W_Remove", w |-> w, got |-> q # <<>>]

\* if !ok { if d.queue.Closed() { break }; continue }
W_Chk(w) ==
  /\ wpc[w] = "chk"
  /\ wpc' = [wpc EXCEPT ![w] = IF closed THEN "exit" ELSE "wait"]
  /\ UNCHANGED <<q, closed, wjob, spc, sjob, sres, cpc, submitted, fails, done, lateStarts, discarded>>
  /\ step' = [act |-> "W_Chk", w |-> w]

W_Start(w) ==
  /\ wpc[w] = "run"
  /\ wpc' = [wpc EXCEPT ![w] = "running"]
  /\ lateStarts' = [lateStarts EXCEPT ![w] = IF closed THEN @ + 1 ELSE @]
  /\ UNCHANGED <<q, closed, wjob, spc, sjob, sres, cpc, submitted, fails, done, discarded>>
  /\ step' = [act |-> "Start", j |-> wjob[w], w |-> w]

W_End(w, ok) ==
  /\ wpc[w] = "running"
  /\ ok \/ fails[wjob[w]] < MaxFail
  /\ IF ok THEN /\ done' = [done EXCEPT ![wjob[w]] = TRUE] /\ wpc' = [wpc EXCEPT ![w] = "wait"]
                /\ wjob' = [wjob EXCEPT ![w] = NoJob] /\ UNCHANGED fails
           ELSE /\ fails' = [fails EXCEPT ![wjob[w]] = @ + 1] /\ wpc' = [wpc EXCEPT ![w] = "requeue"]
                /\ UNCHANGED <<done, wjob>>
  /\ UNCHANGED <<q, closed, spc, sjob, sres, cpc, submitted, lateStarts, discarded>>
  /\ step' = [act |-> "End", j |-> wjob[w], ok |-> ok, w |-> w]

\* d.queue.Add(job) -- the result is ignored: on a closed queue the job is dropped
W_Requeue(w) ==
  /\ wpc[w] = "requeue"
  /\ IF closed
       THEN wpc' = [wpc EXCEPT ![w] = "wait"] /\ UNCHANGED q
       ELSE /\ q' = Append(q, wjob[w])
            /\ wpc' \in Signal([wpc EXCEPT ![w] = "wait"])
  /\ wjob' = [wjob EXCEPT ![w] = NoJob]
  /\ UNCHANGED <<closed, spc, sjob, sres, cpc, submitted, fails, done, lateStarts, discarded>>
  /\ step' = [act |-> "W_Requeue", w |-> w, requeued |-> ~closed]

---------------------------------------------------------------------------
(* Close *)
C_Begin ==
  /\ AllowClose /\ cpc = "idle" /\ cpc' = "closing"
  /\ UNCHANGED <<q, closed, wpc, wjob, spc, sjob, sres, submitted, fails, done, lateStarts, discarded>>
  /\ step' = [act |-> "CloseB"]

C_Close ==
  /\ cpc = "closing" /\ cpc' = "ret"
  /\ closed' = TRUE /\ q' = <<>> /\ wpc' = Broadcast(wpc)
  /\ discarded' = discarded \cup {q[i] : i \in 1..Len(q)}
  /\ UNCHANGED <<wjob, spc, sjob, sres, submitted, fails, done, lateStarts>>
  /\ step' = [act |-> "C_Close"]

C_End ==
  /\ cpc = "ret" /\ cpc' = "done"
  /\ UNCHANGED <<q, closed, wpc, wjob, spc, sjob, sres, submitted, fails, done, lateStarts, discarded>>
  /\ step' = [act |-> "CloseE"]

---------------------------------------------------------------------------
WorkerStep(w) == W_Wait(w) \/ W_TryRemove(w) \/ W_Park(w) \/ W_Remove(w) \/ W_Chk(w) \/ W_Start(w) \/ W_Requeue(w) \/ \E ok \in BOOLEAN : W_End(w, ok)

Silent == S_Add \/ C_Close \/ \E w \in Workers : W_Wait(w) \/ W_TryRemove(w) \/ W_Park(w) \/ W_Remove(w) \/ W_Chk(w) \/ W_Requeue(w)

Next ==
  \/ \E j \in Jobs : j \notin submitted /\ S_Begin(j)      \* every job is submitted once
  \/ S_Add \/ S_End
  \/ \E w \in Workers : WorkerStep(w)
  \/ C_Begin \/ C_Close \/ C_End

Spec == Init /\ [][Next]_vars

(* Reduced next-state relation for the exhaustive runs (same argument as in Writer.tla): SubB, CloseB only move the
   caller's own pc (right movers: merged with the critical section that follows), SubE, CloseE likewise (left movers:
   taken as soon as enabled).  No property below distinguishes the merged states.                                    *)
Urgent == S_Add \/ S_End \/ C_Close \/ C_End
UrgentEnabled == spc \in {"add", "ret"} \/ cpc \in {"closing", "ret"}
NextR == IF UrgentEnabled THEN Urgent ELSE Next
SpecR == Init /\ [][NextR]_vars

\* fairness: every worker keeps running, Submit and Close calls in progress complete; finite failures (MaxFail)
Fairness == /\ \A w \in Workers : WF_vars(WorkerStep(w))
            /\ WF_vars(S_Add \/ S_End) /\ WF_vars(C_Close \/ C_End)
FairSpec == Spec /\ Fairness
FairSpecR == SpecR /\ Fairness

---------------------------------------------------------------------------
(* C40 *)
Holding(j) == {w \in Workers : wjob[w] = j /\ wpc[w] \in {"run", "running", "requeue"}}
InQueue(j) == {i \in 1..Len(q) : q[i] = j}

\* while open nothing is lost: a submitted job has succeeded, or is queued, or is held by a worker -- exactly one copy
NothingLost ==
  ~closed => \A j \in submitted : IF done[j] THEN Holding(j) = {} /\ InQueue(j) = {}
                                  ELSE Cardinality(Holding(j)) + Cardinality(InQueue(j)) = 1
\* never two copies, closed or not; none after success
OneCopy == \A j \in Jobs : /\ Cardinality(Holding(j)) + Cardinality(InQueue(j)) <= 1
                           /\ done[j] => (Holding(j) = {} /\ InQueue(j) = {})
\* a job that succeeded is not run again; a job is not run by two workers at once (action properties: see Ring.tla)
NoRerun == [][ step'.act = "Start" => (~done[step'.j] /\ \A w \in Workers : (wpc[w] = "running" => wjob[w] # step'.j)) ]_vars
\* a failed run is retried: the job goes back to the queue unless the dissolver was closed
FailedRequeued == [][ step'.act = "W_Requeue" => (step'.requeued = ~closed /\ (~closed => q'[Len(q')] = wjob[step'.w])) ]_vars
\* after Close took effect: the queue stays empty, nothing is dequeued, a worker starts at most the job it already held
ClosedQuiet ==
  closed => (q = <<>> /\ \A w \in Workers : lateStarts[w] <= 1)
\* Close discards the queue ATOMICALLY: a job that was queued when Close took effect never starts afterwards.  (The
\* only runs that may start after Close are of jobs a worker had already REMOVED from the queue: lateStarts, the known
\* finding dissolve:job-started-after-close-returned.  A queued job running after Close is a different defect:
\* dissolve:queued-jobs-run-after-close.)
QueuedAtCloseNeverStarts == [][ step'.act = "Start" => step'.j \notin discarded ]_vars
\* no lost wake-up: a queued job always has a worker that is going to look at the queue
SomeoneWillLook == (~closed /\ q # <<>>) => \E w \in Workers : wpc[w] \notin {"blocked", "exit"}
NoDequeueAfterClose == [][ (step'.act = "W_Remove" /\ closed) => ~step'.got ]_vars
SubmitAnswer == [][ step'.act = "S_Add" => (sres' = ~closed) ]_vars

TypeOK == /\ \A w \in Workers : (wjob[w] # NoJob) = (wpc[w] \in {"run", "running", "requeue"})
          /\ closed => cpc \in {"ret", "done"}

\* liveness (FairSpec)
Succeeds == \A j \in Jobs : (j \in submitted) ~> (done[j] \/ closed)
WorkersExit == closed ~> (\A w \in Workers : wpc[w] = "exit")
StrongLiveness == \A j \in Jobs : (j \in submitted) ~> done[j]

View == core
=============================================================================
