SPECIFICATION Spec
CONSTANTS Vals    <- ValsThorough
          SetVals <- SetValsThorough
          NumEdge <- NumEdgeThorough
          ArityB = 3
          WideB = TRUE
          WideC = TRUE
INVARIANTS ThAbsentKey ThDuals ThNumeric ThConnectives ThTotal ThTable
CHECK_DEADLOCK FALSE
