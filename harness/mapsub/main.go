// C22 / C16 (map paths): gate replay of spec/MapSub behaviours on real clients.
//
// One real node per worker with a wrapping MapBroker (gateMapBroker) around the real MemoryMapBroker: every call is
// forwarded; the subscriber goroutine is parked, exactly where the model's pc says, inside calls through the public
// MapBroker interface (after ReadState of the last state page = "sr", after the stream position read = "sp"/"tp",
// inside Subscribe = "g1", after the ReadStream of the live transition = "g3"); publications handed over by the
// broker to its event handler are withheld and enter the node (Node.HandlePublication) only when the model
// delivers them.  A reference client implemented here (same rules as the model's client) drives the real command
// path (subscribe commands with type map / phase / cursor / offset / epoch / recover) and builds its map from the
// decoded frames; its requests are computed from the REAL replies.  Key expiry, stream expiry and the periodic
// position check are time driven in the code; they are triggered through the public API plus overlay/mapsub (which
// runs the bodies of the sweeps / one connection tick).
//
// After every step at which the subscriber is not parked the frames are projected to the model's `out` and compared;
// the monitors (C16M: nothing excluded by the filter is delivered, changed server filter => unsubscribe 2502;
// C22R: recovered=true carries every admitted change) are evaluated on the REAL frames, and at every quiescent point
// the reference client's map is compared with the real broker's ReadState restricted by the filter (C22).
//
// When the real code leaves the model (frames or gate differ) the harness stops following the model: nothing is
// parked any more, the reference client finishes the protocol on the real replies, everything withheld is
// delivered, the position check runs if the position is not the stream's, and the REAL outcome is judged:
// VIOLATION if a monitor fails or the client ends silently diverged, DRIFT otherwise.
//
// The hook verifGate("map:replied") (build tag verif, installed with centrifuge.VerifSetGate) is the gate "rp": the
// live reply is enqueued, the buffer is still locked; a delivery made there runs on its own goroutine and must block
// until the subscriber is released (steps DeliverBlocked / TransStop / Unblock).
//
// Every behaviour that does not pass cleanly is executed again on a fresh node (execute): drift counts only when all
// three executions drift, a violation only when it shows twice with the same signature.
//
// Mode `probe` asks the real code which stream-read semantics it has (see fam/mapsub.py); mode `windows` runs the
// directed schedules for the two narrow windows of the live transition (top probe .. hub registration; buffer locked).
package main

import (
	"context"
	"encoding/json"
	"fmt"
	"sort"
	"strconv"
	"strings"
	"sync"
	"time"

	"github.com/centrifugal/centrifuge"
	"github.com/centrifugal/protocol"

	"verifharness/cl"
	"verifharness/vh"
)

// generous: the waits only cost time when something is wrong (or the machine is overloaded)
const gateTimeout = 15 * time.Second

// ------------------------------------------------------------------ gates

type gate struct {
	arrived chan struct{}
	release chan struct{}
	a, r    sync.Once
}

func newGate() *gate { return &gate{arrived: make(chan struct{}), release: make(chan struct{})} }

func (g *gate) arrive() {
	g.a.Do(func() { close(g.arrived) })
	select {
	case <-g.release:
	case <-time.After(gateTimeout):
	}
}

func (g *gate) free() { g.r.Do(func() { close(g.release) }) }

// ------------------------------------------------------------------ wrapping map broker

type gateMapBroker struct {
	Inner   *centrifuge.MemoryMapBroker
	handler centrifuge.BrokerEventHandler
	w       *worker
}

type interceptor struct{ g *gateMapBroker }

func (i interceptor) HandlePublication(ch string, pub *centrifuge.Publication, sp centrifuge.StreamPosition, delta bool, prev *centrifuge.Publication) error {
	if r := i.g.w.runner(ch); r != nil {
		r.capture(pub, sp)
		return nil
	}
	return i.g.handler.HandlePublication(ch, pub, sp, delta, prev)
}
func (i interceptor) HandleJoin(ch string, info *centrifuge.ClientInfo) error {
	return i.g.handler.HandleJoin(ch, info)
}
func (i interceptor) HandleLeave(ch string, info *centrifuge.ClientInfo) error {
	return i.g.handler.HandleLeave(ch, info)
}

func (g *gateMapBroker) RegisterEventHandler(h centrifuge.BrokerEventHandler) error {
	g.handler = h
	return g.Inner.RegisterEventHandler(interceptor{g})
}
func (g *gateMapBroker) Close(ctx context.Context) error { return g.Inner.Close(ctx) }
func (g *gateMapBroker) Subscribe(chs ...string) error {
	for _, ch := range chs {
		if r := g.w.runner(ch); r != nil {
			r.park("g1")
		}
	}
	return g.Inner.Subscribe(chs...)
}
func (g *gateMapBroker) Unsubscribe(chs ...string) error { return g.Inner.Unsubscribe(chs...) }
func (g *gateMapBroker) Publish(ctx context.Context, ch string, key string, opts centrifuge.MapPublishOptions) (centrifuge.MapUpdateResult, error) {
	return g.Inner.Publish(ctx, ch, key, opts)
}
func (g *gateMapBroker) Remove(ctx context.Context, ch string, key string, opts centrifuge.MapRemoveOptions) (centrifuge.MapUpdateResult, error) {
	return g.Inner.Remove(ctx, ch, key, opts)
}
func (g *gateMapBroker) Clear(ctx context.Context, ch string, opts centrifuge.MapClearOptions) error {
	return g.Inner.Clear(ctx, ch, opts)
}
func (g *gateMapBroker) Stats(ctx context.Context, ch string) (centrifuge.MapStats, error) {
	return g.Inner.Stats(ctx, ch)
}
func (g *gateMapBroker) ReadStream(ctx context.Context, ch string, opts centrifuge.MapReadStreamOptions) (centrifuge.MapStreamResult, error) {
	res, err := g.Inner.ReadStream(ctx, ch, opts)
	if r := g.w.runner(ch); r != nil {
		if err == nil {
			r.epochNum(res.Position.Epoch)
		}
		switch {
		case opts.Filter.Since == nil && opts.Filter.Limit == 0:
			r.park("pos") // stream position read: "sp" (state command) or "tp" (stream command)
		case opts.Filter.Since != nil && r.inTransition():
			r.park("g3")
		}
	}
	return res, err
}
func (g *gateMapBroker) ReadState(ctx context.Context, ch string, opts centrifuge.MapReadStateOptions) (centrifuge.MapStateResult, error) {
	res, err := g.Inner.ReadState(ctx, ch, opts)
	if r := g.w.runner(ch); r != nil {
		r.epochNum(res.Position.Epoch)
		if err == nil && res.Cursor == "" && opts.Key == "" && opts.Limit != 0 {
			r.park("sr")
		}
	}
	return res, err
}

// ------------------------------------------------------------------ worker

type worker struct {
	env       *cl.Env
	inner     *centrifuge.MemoryMapBroker
	gb        *gateMapBroker
	runners   sync.Map
	liveLimit int
	ticks     int // position ticks run so far on this node (each one moves the node's clock further ahead)
}

func (w *worker) runner(ch string) *runner {
	if v, ok := w.runners.Load(ch); ok {
		return v.(*runner)
	}
	return nil
}

func keepFilter() *centrifuge.FilterNode {
	return &centrifuge.FilterNode{Key: "t", Cmp: "eq", Val: "keep"}
}
func allFilter() *centrifuge.FilterNode {
	return &centrifuge.FilterNode{Key: "t", Cmp: "in", Vals: []string{"keep", "drop"}}
}

func newWorker(liveLimit int) (*worker, error) {
	w := &worker{liveLimit: liveLimit}
	env, err := cl.NewEnv(centrifuge.Config{
		LogLevel:                        centrifuge.LogLevelNone,
		ClientChannelPositionMaxTimeLag: time.Hour,
		ClientChannelPositionCheckDelay: time.Hour,
		Map: centrifuge.MapConfig{GetMapChannelOptions: func(ch string) centrifuge.MapChannelOptions {
			r := w.runner(ch)
			if r == nil {
				return centrifuge.MapChannelOptions{Mode: centrifuge.MapModeEphemeral, KeyTTL: time.Hour, MinPageSize: 1}
			}
			return r.chanOpts()
		}},
	})
	if err != nil {
		return nil, err
	}
	w.env = env
	inner, err := centrifuge.NewMemoryMapBroker(env.Node, centrifuge.MemoryMapBrokerConfig{})
	if err != nil {
		return nil, err
	}
	w.inner = inner
	w.gb = &gateMapBroker{Inner: inner, w: w}
	env.Node.SetMapBroker(w.gb)
	env.OnSubscribe = func(_ *centrifuge.Client, e centrifuge.SubscribeEvent, cb centrifuge.SubscribeCallback) {
		r := w.runner(e.Channel)
		opts := centrifuge.SubscribeOptions{Type: centrifuge.SubscriptionTypeMap, AllowTagsFilter: true}
		reply := centrifuge.SubscribeReply{}
		if r != nil && r.filt && r.sf {
			opts.ServerTagsFilter = r.serverFilter()
			reply.ClientSideRefresh = true
		}
		reply.Options = opts
		cb(reply, nil)
	}
	env.Setup = func(c *centrifuge.Client) {
		c.OnSubRefresh(func(e centrifuge.SubRefreshEvent, cb centrifuge.SubRefreshCallback) {
			r := w.runner(e.Channel)
			rep := centrifuge.SubRefreshReply{}
			if r != nil {
				rep.ServerTagsFilter = r.serverFilter()
			}
			cb(rep, nil)
		})
	}
	if err := env.Run(); err != nil {
		return nil, err
	}
	return w, nil
}

// ------------------------------------------------------------------ runner

type delivery struct {
	pub *centrifuge.Publication
	sp  centrifuge.StreamPosition
}

type logEntry struct {
	ep  int
	off int
	key int
	id  int // operation id of the change
}

type runner struct {
	w     *worker
	ch    string
	cfg   map[string]any
	mode  string
	kind  string
	filt  bool
	sf    bool
	ktag  map[int]string
	page  int
	ssize int

	mu         sync.Mutex
	deliveries map[int]delivery
	curID      int
	shortTTL   bool
	sfAll      bool
	gates      map[string]*gate
	posGate    string
	trans      bool
	epochs     map[string]int

	conn       *cl.Conn
	cmdDone    chan struct{}
	cmdIDs     map[uint32]string // id -> "sub" | "refresh"
	log        []logEntry
	rc         refClient
	nproc      int // frames already given to the reference client
	real       []frame
	refreshAt  int // index in real frames of the invalidating unsubscribe (-1: none)
	resubs     int
	hole       bool           // the model recorded a non-contiguous stream read in this behaviour
	lastCmd    string         // StateCmd | StreamCmd | JoinCmd: what started the live transition in flight / last finished
	delivAt    map[int]string // operation id -> where the subscriber was when the change was handed to the node
	blocked    chan struct{}  // closed when the delivery made while the buffer was locked has returned
	modelEpoch int            // the model's current epoch number (epoch strings are numbered when first seen)
	clearAt    string         // where the subscriber was at the last Clear ("" = no Clear)
}

// every runner of the process by channel: the verif hook is process wide
var allRunners sync.Map

// hook is installed with centrifuge.VerifSetGate: "map:replied" = the live reply is enqueued, the subscriber still
// holds the buffer lock (LockBufferAndReadBuffered .. StopBuffering).
func hook(point, _ string, ch string) {
	if point != "map:replied" {
		return
	}
	if v, ok := allRunners.Load(ch); ok {
		v.(*runner).park("rp")
	}
}

func (w *worker) register(r *runner) {
	w.runners.Store(r.ch, r)
	allRunners.Store(r.ch, r)
}

func (w *worker) unregister(r *runner) {
	w.runners.Delete(r.ch)
	allRunners.Delete(r.ch)
}

func (r *runner) chanOpts() centrifuge.MapChannelOptions {
	r.mu.Lock()
	short := r.shortTTL
	r.mu.Unlock()
	o := centrifuge.MapChannelOptions{MinPageSize: 1, SubscribeCatchUpTimeout: -1}
	switch r.mode {
	case "eph":
		o.Mode = centrifuge.MapModeEphemeral
		o.KeyTTL = time.Hour
	case "rec":
		o.Mode = centrifuge.MapModeRecoverable
		o.KeyTTL = time.Hour
	default:
		o.Mode = centrifuge.MapModePersistent
	}
	if short && o.KeyTTL > 0 {
		o.KeyTTL = time.Millisecond
	}
	if r.mode != "eph" {
		o.StreamSize = r.ssize
		o.StreamTTL = time.Hour
		if r.mode == "rec" {
			o.MetaTTL = 24 * time.Hour
		}
		o.LiveTransitionMaxPublicationLimit = r.w.liveLimit
	}
	return o
}

func (r *runner) serverFilter() *centrifuge.FilterNode {
	r.mu.Lock()
	defer r.mu.Unlock()
	if r.sfAll {
		return allFilter()
	}
	return keepFilter()
}

func (r *runner) capture(pub *centrifuge.Publication, sp centrifuge.StreamPosition) {
	r.mu.Lock()
	r.deliveries[r.curID] = delivery{pub, sp}
	r.mu.Unlock()
}

func (r *runner) captured(id int) bool {
	r.mu.Lock()
	defer r.mu.Unlock()
	_, ok := r.deliveries[id]
	return ok
}

func (r *runner) inTransition() bool {
	r.mu.Lock()
	defer r.mu.Unlock()
	return r.trans
}

// park is called on the subscriber goroutine from inside a MapBroker call.
func (r *runner) park(name string) {
	r.mu.Lock()
	if name == "pos" {
		name = r.posGate
	}
	if name == "g1" {
		r.trans = true
	}
	var g *gate
	if r.gates != nil {
		g = r.gates[name]
	}
	r.mu.Unlock()
	if g != nil {
		g.arrive()
	}
}

func (r *runner) newGates(posGate string) {
	r.mu.Lock()
	r.gates = map[string]*gate{"sr": newGate(), "sp": newGate(), "tp": newGate(), "g1": newGate(), "g3": newGate(), "rp": newGate()}
	r.posGate = posGate
	r.trans = false
	r.mu.Unlock()
}

func (r *runner) freeAll() {
	r.mu.Lock()
	gs := r.gates
	r.mu.Unlock()
	for _, g := range gs {
		g.free()
	}
}

// waitEvent waits until the subscriber parks at some gate or the command finishes; returns the gate name or "idle".
func (r *runner) waitEvent() string {
	r.mu.Lock()
	gs := r.gates
	r.mu.Unlock()
	t := time.After(gateTimeout)
	// a gate that was already passed (released) does not count
	pending := func(n string) <-chan struct{} {
		g := gs[n]
		select {
		case <-g.release:
			return nil
		default:
			return g.arrived
		}
	}
	select {
	case <-pending("sr"):
		return "sr"
	case <-pending("sp"):
		return "sp"
	case <-pending("tp"):
		return "tp"
	case <-pending("g1"):
		return "g1"
	case <-pending("g3"):
		return "g3"
	case <-pending("rp"):
		return "rp"
	case <-r.cmdDone:
		return "idle"
	case <-t:
		return "timeout"
	}
}

func (r *runner) filtered(key int, frameIdx int) bool {
	if !r.filt || r.ktag[key] != "drop" {
		return false
	}
	if r.sf && r.refreshAt >= 0 && frameIdx > r.refreshAt {
		return false
	}
	return true
}

func (r *runner) filteredNow(key int) bool {
	r.mu.Lock()
	all := r.sfAll
	r.mu.Unlock()
	return r.filt && r.ktag[key] == "drop" && !(r.sf && all)
}

// ------------------------------------------------------------------ frames

type ent struct {
	Key int  `json:"key"`
	ID  int  `json:"id"`
	Off int  `json:"off"`
	Rem bool `json:"rem,omitempty"`
}

type frame struct {
	T     string `json:"t"`
	Ents  []ent  `json:"ents,omitempty"`
	Pubs  []ent  `json:"pubs,omitempty"`
	Cur   int    `json:"cur,omitempty"`
	Off   int    `json:"off,omitempty"`
	Ep    int    `json:"ep,omitempty"`
	Rec   bool   `json:"rec,omitempty"`
	Key   int    `json:"key,omitempty"`
	ID    int    `json:"id,omitempty"`
	Rem   bool   `json:"rem,omitempty"`
	Code  int    `json:"code,omitempty"`
	Info  string `json:"info,omitempty"`
	epStr string // real epoch string of a subscribe reply
}

func keyNum(k string) int {
	n, err := strconv.Atoi(strings.TrimPrefix(k, "k"))
	if err != nil {
		return -1
	}
	return n
}
func keyName(k int) string { return "k" + strconv.Itoa(k) }

func pubEnt(p *protocol.Publication) ent {
	id, _ := strconv.Atoi(string(p.Data))
	return ent{Key: keyNum(p.Key), ID: id, Off: int(p.Offset), Rem: p.Removed}
}

func (r *runner) epochNum(e string) int {
	if e == "" {
		return 0
	}
	r.mu.Lock()
	defer r.mu.Unlock()
	if n, ok := r.epochs[e]; ok {
		return n
	}
	// an epoch string seen for the first time: the channel was (re-)created by the access that returned it; its number is
	// the model's current epoch (the harness itself never touches a cleared channel, that would re-create it)
	if r.modelEpoch > 0 {
		for _, n := range r.epochs {
			if n == r.modelEpoch {
				return -1
			}
		}
		r.epochs[e] = r.modelEpoch
		return r.modelEpoch
	}
	return -1
}

func (r *runner) project() []frame {
	var out []frame
	for _, rep := range r.conn.Frames() {
		switch {
		case rep.Connect != nil:
		case rep.Id != 0 && rep.Subscribe != nil && r.cmdIDs[rep.Id] == "sub":
			s := rep.Subscribe
			f := frame{Off: int(s.Offset), Ep: r.epochNum(s.Epoch), epStr: s.Epoch}
			switch s.Phase {
			case centrifuge.MapPhaseState:
				f.T = "state"
				f.Cur = 0
				if s.Cursor != "" {
					f.Cur = keyNum(s.Cursor)
				}
				for _, p := range s.State {
					f.Ents = append(f.Ents, pubEnt(p))
				}
			case centrifuge.MapPhaseStream:
				f.T = "stream"
				f.Ep = 0
				for _, p := range s.Publications {
					f.Pubs = append(f.Pubs, pubEnt(p))
				}
			default:
				f.T = "live"
				f.Rec = s.Recovered
				for _, p := range s.State {
					f.Ents = append(f.Ents, pubEnt(p))
				}
				for _, p := range s.Publications {
					f.Pubs = append(f.Pubs, pubEnt(p))
				}
			}
			out = append(out, f)
		case rep.Id != 0 && rep.Error != nil:
			out = append(out, frame{T: "err", Code: int(rep.Error.Code)})
		case rep.Id != 0 && rep.SubRefresh != nil:
			out = append(out, frame{T: "refok"})
		case rep.Push != nil && rep.Push.Channel == r.ch && rep.Push.Pub != nil:
			e := pubEnt(rep.Push.Pub)
			out = append(out, frame{T: "pub", Key: e.Key, ID: e.ID, Rem: e.Rem, Off: e.Off})
		case rep.Push != nil && rep.Push.Channel == r.ch && rep.Push.Unsubscribe != nil:
			out = append(out, frame{T: "unsub", Code: int(rep.Push.Unsubscribe.Code)})
		case rep.Push != nil && rep.Push.Disconnect != nil:
		default:
			out = append(out, frame{T: "other", Info: cl.Describe(rep)})
		}
	}
	if closed, d := r.conn.T.Closed(); closed {
		out = append(out, frame{T: "disc", Code: int(d.Code)})
	}
	return out
}

func modelEnts(v any) []ent {
	var es []ent
	for _, x := range vh.List(v) {
		m := vh.Map(x)
		e := ent{Key: vh.Int(m["key"]), ID: vh.Int(m["id"]), Off: vh.Int(m["off"])}
		if b, ok := m["rem"]; ok {
			e.Rem = vh.Bool(b)
		}
		es = append(es, e)
	}
	return es
}

func modelOut(st map[string]any) []frame {
	var out []frame
	for _, x := range vh.List(st["out"]) {
		m := vh.Map(x)
		f := frame{T: vh.Str(m["t"])}
		switch f.T {
		case "state":
			f.Ents, f.Cur, f.Off, f.Ep = modelEnts(m["ents"]), vh.Int(m["cur"]), vh.Int(m["off"]), vh.Int(m["ep"])
		case "stream":
			f.Pubs, f.Off = modelEnts(m["pubs"]), vh.Int(m["off"])
		case "live":
			f.Ents, f.Pubs, f.Off, f.Ep, f.Rec = modelEnts(m["ents"]), modelEnts(m["pubs"]), vh.Int(m["off"]), vh.Int(m["ep"]), vh.Bool(m["rec"])
		case "pub":
			f.Key, f.ID, f.Rem, f.Off = vh.Int(m["key"]), vh.Int(m["id"]), vh.Bool(m["rem"]), vh.Int(m["off"])
		case "err", "unsub", "disc":
			f.Code = vh.Int(m["code"])
		}
		out = append(out, f)
	}
	return out
}

func sameEnts(a, b []ent) bool {
	if len(a) != len(b) {
		return false
	}
	for i := range a {
		x, y := a[i], b[i]
		if x.Key != y.Key || x.Off != y.Off || x.Rem != y.Rem {
			return false
		}
		if !x.Rem && x.ID != y.ID { // a removal carries no data
			return false
		}
	}
	return true
}

func sameFrames(a, b []frame) bool {
	if len(a) != len(b) {
		return false
	}
	for i := range a {
		x, y := a[i], b[i]
		if x.T != y.T || x.Cur != y.Cur || x.Off != y.Off || x.Ep != y.Ep || x.Rec != y.Rec || x.Code != y.Code || x.Key != y.Key || x.Rem != y.Rem {
			return false
		}
		if x.T == "pub" && !x.Rem && x.ID != y.ID {
			return false
		}
		if !sameEnts(x.Ents, y.Ents) || !sameEnts(x.Pubs, y.Pubs) {
			return false
		}
	}
	return true
}

// ------------------------------------------------------------------ reference client (same rules as MapSub.tla Client)

type refClient struct {
	ph    string // init, state, stream, join, live, told, gone
	m     map[int]int
	off   int
	ep    int
	epStr string
	cur   int
	first bool
	rec   bool
	full  bool // has seen every state page (or held the state before): only then convergence is owed to it
	// position the last request was sent with (for the recovery monitor)
	reqOff int
}

func freshClient() refClient {
	return refClient{ph: "state", m: map[int]int{}, first: true}
}

func (c *refClient) applyEnts(es []ent) {
	for _, e := range es {
		c.m[e.Key] = e.ID
	}
}

func (c *refClient) applyPubs(ps []ent, pos int) {
	for _, p := range ps {
		if p.Off == 0 || p.Off > pos {
			if p.Rem {
				delete(c.m, p.Key)
			} else {
				c.m[p.Key] = p.ID
			}
		}
	}
}

func (c *refClient) onFrame(f frame, epStr string) {
	switch f.T {
	case "state":
		c.applyEnts(f.Ents)
		if c.first {
			c.off, c.ep, c.epStr = f.Off, f.Ep, epStr
		}
		c.first = false
		c.cur = f.Cur
		if f.Cur == 0 {
			c.ph = "stream"
			c.full = true
		}
	case "stream":
		c.applyPubs(f.Pubs, c.off)
		c.off = f.Off
	case "live":
		c.applyEnts(f.Ents)
		c.applyPubs(f.Pubs, c.off)
		c.full = c.full || c.ph == "state" // a STATE request answered LIVE was the last page
		c.off, c.ep, c.epStr, c.ph, c.first, c.cur = f.Off, f.Ep, epStr, "live", false, 0
	case "pub":
		if c.ph == "live" {
			c.applyPubs([]ent{{Key: f.Key, ID: f.ID, Off: f.Off, Rem: f.Rem}}, c.off)
			if f.Off > c.off {
				c.off = f.Off
			}
		}
	case "err", "unsub":
		c.ph = "told"
	case "disc":
		c.ph = "gone"
	}
}

// feed gives the frames not yet seen to the reference client; monitors that need the client's state before a frame
// (C22R) are evaluated here.
func (r *runner) feed(real []frame, hole bool) []verdict {
	var vs []verdict
	for i := r.nproc; i < len(real); i++ {
		f := real[i]
		epStr := f.epStr
		if f.T == "live" && f.Rec {
			vs = append(vs, r.checkRecovered(f, hole)...)
		}
		if f.T == "unsub" && f.Code == 2502 && r.refreshAt < 0 {
			r.refreshAt = i
		}
		r.rc.onFrame(f, epStr)
	}
	r.nproc = len(real)
	return vs
}

type verdict struct{ prop, sig, what string }

// C22R: recovered = true carries every admitted change after the requested position up to the reply offset
func (r *runner) checkRecovered(f frame, hole bool) []verdict {
	since, ep := r.rc.reqOff, r.rc.ep
	have := map[int]bool{}
	for _, p := range f.Pubs {
		have[p.Off] = true
	}
	if f.Ep != ep {
		return []verdict{{"C22", "recovered-across-epochs:" + r.kind, fmt.Sprintf("recovered=true although the reply epoch %d differs from the requested epoch %d", f.Ep, ep)}}
	}
	for _, e := range r.log {
		if e.ep == f.Ep && e.off > since && e.off <= f.Off && !r.filteredNow(e.key) && !have[e.off] {
			sig := "recovered-with-missing-change:" + r.kind
			if hole {
				sig = "stream:non-contiguous-read-accepted:" + r.kind + ":recovered"
			}
			return []verdict{{"C22", sig, fmt.Sprintf("live reply says recovered=true for position %d -> %d but the change at offset %d (key %s) is not among the publications %v", since, f.Off, e.off, keyName(e.key), f.Pubs)}}
		}
	}
	return nil
}

// C16M: nothing excluded by the filter in force is delivered on any map path
func (r *runner) monitorFilter(real []frame) []verdict {
	var vs []verdict
	for i, f := range real {
		bad := func(path string, key int) {
			vs = append(vs, verdict{"C16", "map-" + path + "-filtered:" + map[bool]string{true: "server", false: "client"}[r.sf],
				fmt.Sprintf("key %s (tag %q) is excluded by the %s tags filter but was delivered in a %s", keyName(key), r.ktag[key], map[bool]string{true: "server", false: "client"}[r.sf], path)})
		}
		switch f.T {
		case "state":
			for _, e := range f.Ents {
				if r.filtered(e.Key, i) {
					bad("state-page", e.Key)
				}
			}
		case "stream":
			for _, e := range f.Pubs {
				if r.filtered(e.Key, i) {
					bad("stream-page", e.Key)
				}
			}
		case "live":
			for _, e := range f.Ents {
				if r.filtered(e.Key, i) {
					bad("live-state", e.Key)
				}
			}
			for _, e := range f.Pubs {
				if r.filtered(e.Key, i) {
					bad("live-publications", e.Key)
				}
			}
		case "pub":
			if r.filtered(f.Key, i) {
				bad("push", f.Key)
			}
		}
	}
	return vs
}

// ------------------------------------------------------------------ broker access for the driver (bypasses the gates)

func (r *runner) brokerPos() (int, string) {
	res, err := r.w.inner.ReadStream(context.Background(), r.ch, centrifuge.MapReadStreamOptions{Filter: centrifuge.StreamFilter{Limit: 0}})
	if err != nil {
		return -1, ""
	}
	return int(res.Position.Offset), res.Position.Epoch
}

func (r *runner) brokerState() (map[int]int, error) {
	res, err := r.w.inner.ReadState(context.Background(), r.ch, centrifuge.MapReadStateOptions{Limit: -1})
	if err != nil {
		return nil, err
	}
	m := map[int]int{}
	for _, p := range res.Publications {
		id, _ := strconv.Atoi(string(p.Data))
		m[keyNum(p.Key)] = id
	}
	return m, nil
}

func (r *runner) registerEpoch(n int) {
	_, ep := r.brokerPos()
	r.mu.Lock()
	if _, ok := r.epochs[ep]; !ok {
		r.epochs[ep] = n
	}
	r.mu.Unlock()
}

func fmtMap(m map[int]int) string {
	ks := make([]int, 0, len(m))
	for k := range m {
		ks = append(ks, k)
	}
	sort.Ints(ks)
	var sb strings.Builder
	sb.WriteString("{")
	for i, k := range ks {
		if i > 0 {
			sb.WriteString(", ")
		}
		fmt.Fprintf(&sb, "%s=#%d", keyName(k), m[k])
	}
	sb.WriteString("}")
	return sb.String()
}

// ------------------------------------------------------------------ one behaviour

func (r *runner) subscribeReq() *protocol.SubscribeRequest {
	req := &protocol.SubscribeRequest{Channel: r.ch, Type: int32(centrifuge.SubscriptionTypeMap), Limit: int32(r.page)}
	if r.filt && !r.sf {
		req.Tf = keepFilter()
	}
	return req
}

// positionTick runs the connection's periodic tick now (position check due) and waits for an unsubscribe push.
func (r *runner) positionTick(wait time.Duration) bool {
	before := len(r.conn.T.Replies())
	r.w.ticks++
	centrifuge.VerifMapSubPositionTick(r.conn.Client, time.Duration(r.w.ticks)*3*time.Hour)
	return r.conn.T.WaitFor(wait, func(rs []*protocol.Reply, closed bool) bool {
		for i, rep := range rs {
			if i >= before && rep.Push != nil && rep.Push.Channel == r.ch && rep.Push.Unsubscribe != nil {
				return true
			}
		}
		return closed
	})
}

// sendSync issues one subscribe command of the reference client with nothing parked and waits for its answer.
func (r *runner) sendSync(req *protocol.SubscribeRequest) bool {
	id := r.conn.NextID()
	r.cmdIDs[id] = "sub"
	r.rc.reqOff = r.rc.off
	done := make(chan struct{})
	go func() {
		defer close(done)
		r.conn.Do(&protocol.Command{Id: id, Subscribe: req})
	}()
	select {
	case <-done:
	case <-time.After(gateTimeout):
		return false
	}
	ok := r.conn.T.WaitFor(10*time.Second, func(rs []*protocol.Reply, closed bool) bool {
		for _, rep := range rs {
			if rep.Id == id {
				return true
			}
		}
		return closed
	})
	return ok
}

func (r *runner) nextRequest() *protocol.SubscribeRequest {
	req := r.subscribeReq()
	switch r.rc.ph {
	case "state":
		req.Phase = centrifuge.MapPhaseState
		if !r.rc.first {
			req.Cursor = keyName(r.rc.cur)
			req.Offset = uint64(r.rc.off)
			req.Epoch = r.rc.epStr
		}
	case "stream":
		req.Phase = centrifuge.MapPhaseStream
		req.Offset, req.Epoch, req.Recover = uint64(r.rc.off), r.rc.epStr, r.rc.rec
	case "join":
		req.Phase = centrifuge.MapPhaseLive
		req.Offset, req.Epoch, req.Recover = uint64(r.rc.off), r.rc.epStr, true
	default:
		return nil
	}
	return req
}

// settle waits until everything enqueued has been written and gives the new frames to the reference client.
func (r *runner) settle() ([]frame, []verdict) {
	if closed, _ := r.conn.T.Closed(); !closed {
		r.conn.Barrier(10 * time.Second)
	}
	real := r.project()
	vs := r.feed(real, r.hole)
	vs = append(vs, r.monitorFilter(real)...)
	return real, vs
}

// freeRun: the real code left the model.  Nothing is parked any more; the reference client finishes the protocol on
// its own (following the REAL replies), everything withheld is delivered, and the outcome is judged on the real
// code alone: monitors on the frames, and the client's map against the broker's state.  Returns verdicts (violations)
// and whether a final comparison was possible.
func (r *runner) freeRun(maxResub int) ([]verdict, string) {
	r.freeAll()
	r.mu.Lock()
	r.gates = nil
	r.mu.Unlock()
	if r.cmdDone != nil {
		select {
		case <-r.cmdDone:
		case <-time.After(gateTimeout):
			return nil, "command in flight did not finish"
		}
	}
	if r.blocked != nil {
		select {
		case <-r.blocked:
		case <-time.After(gateTimeout):
			return nil, "the delivery made while the buffer was locked never returned"
		}
		r.blocked = nil
	}
	var all []verdict
	for round := 0; round < 4; round++ {
		for i := 0; i < 12; i++ {
			_, vs := r.settle()
			all = append(all, vs...)
			if r.rc.ph == "told" && r.resubs < maxResub {
				r.resubs++
				r.rc = freshClient()
			}
			req := r.nextRequest()
			if req == nil {
				break
			}
			if !r.sendSync(req) {
				return all, "no answer to a subscribe command"
			}
		}
		// deliver what is still withheld, oldest first
		r.mu.Lock()
		ids := make([]int, 0, len(r.deliveries))
		for id := range r.deliveries {
			ids = append(ids, id)
		}
		sort.Ints(ids)
		ds := make([]delivery, 0, len(ids))
		for _, id := range ids {
			ds = append(ds, r.deliveries[id])
			delete(r.deliveries, id)
		}
		r.mu.Unlock()
		for _, d := range ds {
			_ = r.w.gb.handler.HandlePublication(r.ch, d.pub, d.sp, false, nil)
		}
		time.Sleep(5 * time.Millisecond) // an insufficient-state end runs on its own goroutine
		_, vs := r.settle()
		all = append(all, vs...)
		if r.mode != "eph" && r.rc.ph == "live" {
			// a subscription of an earlier epoch (Clear) is ended by the periodic position check
			if _, ep := r.brokerPos(); ep != r.rc.epStr {
				r.positionTick(500 * time.Millisecond)
				_, vs := r.settle()
				all = append(all, vs...)
			}
		}
		if !(r.rc.ph == "told" && r.resubs < maxResub) {
			break
		}
	}
	if len(all) > 0 {
		return all, ""
	}
	v, problem := r.judge("the real code left the model; the reference client finished the protocol on the real replies, ")
	if v != nil {
		return []verdict{*v}, ""
	}
	return nil, problem
}

// transitionKind names the live transition by the command that started it.
func (r *runner) transitionKind() string {
	switch r.lastCmd {
	case "StateCmd":
		return "state-to-live"
	case "StreamCmd":
		return "stream-to-live"
	case "JoinCmd":
		return "recovery-join"
	}
	return "no-transition"
}

// judge: nothing is in flight and the client believes it is live - does it hold the broker's state?  The verdict
// is taken on the real code alone; the signature carries the schedule class (where the subscriber was when the
// lost change was handed to the node).
func (r *runner) judge(prefix string) (*verdict, string) {
	if r.rc.ph != "live" {
		return nil, "" // told / gone: explicit end
	}
	if !r.rc.full {
		return nil, "" // went live without having seen every state page (an accepted out-of-order move): no convergence owed
	}
	top := 0
	if r.mode != "eph" {
		var ep string
		top, ep = r.brokerPos()
		if ep != r.rc.epStr {
			return nil, "the subscription belongs to an earlier epoch and the position check did not end it"
		}
	}
	bs, err := r.brokerState()
	if err != nil {
		return nil, "ReadState: " + err.Error()
	}
	want := map[int]int{}
	for k, id := range bs {
		if !r.filteredNow(k) {
			want[k] = id
		}
	}
	behind := r.mode != "eph" && !r.filt && top != r.rc.off
	if fmtMap(want) == fmtMap(r.rc.m) && !behind {
		return nil, ""
	}
	if r.mode == "eph" {
		return &verdict{"C22", "streamless:unclassified-after-drift", prefix + fmt.Sprintf("nothing is in flight, the client was not told anything, but it holds %s while the broker state (admitted keys) is %s", fmtMap(r.rc.m), fmtMap(want))}, ""
	}
	// the newest change of a key the client is wrong about (or, if only the position is behind, the first one after it)
	lostID := 0
	for i := len(r.log) - 1; i >= 0 && lostID == 0; i-- {
		e := r.log[i]
		if e.ep == r.rc.ep && !r.filteredNow(e.key) && want[e.key] != r.rc.m[e.key] {
			lostID = e.id
		}
	}
	if lostID == 0 {
		for _, e := range r.log {
			if e.ep == r.rc.ep && e.off > r.rc.off {
				lostID = e.id
				break
			}
		}
	}
	kind := r.transitionKind()
	sig := "unexplained:" + r.mode + ":" + r.kind
	if lostID == 0 && r.clearAt != "" {
		// nothing of the client's epoch is missing from the stream: it holds the state of a cleared epoch
		window := map[string]string{"sr": "between-state-read-and-probe", "sp": "between-probe-and-live-read", "tp": "between-probe-and-live-read",
			"g1": "between-probe-and-live-read", "g3": "after-live-read", "rp": "while-buffer-locked", "idle": "outside-the-transition"}[r.clearAt]
		return &verdict{"C22", "clear:" + window + ":" + kind, prefix + fmt.Sprintf("nothing is in flight, the client was told LIVE in the current epoch and nothing else, but it holds %s while the broker state (admitted keys) is %s at stream top %d: the channel was cleared while the subscriber was at %q (%s) and the epoch flip went unnoticed",
			fmtMap(r.rc.m), fmtMap(want), top, r.clearAt, kind)}, ""
	}
	switch r.delivAt[lostID] {
	case "sr":
		sig = kind + ":update-between-state-read-and-top-probe-lost"
	case "sp", "tp":
		sig = kind + ":update-between-top-probe-and-subscribe-lost"
	case "g1":
		sig = kind + ":update-inside-broker-subscribe-lost"
	case "g3":
		sig = kind + ":update-after-stream-read-lost"
	case "rp":
		sig = "live-window:update-while-buffer-locked-lost:" + kind
	case "idle":
		sig = kind + ":update-after-live-lost"
	}
	return &verdict{"C22", sig, prefix + fmt.Sprintf("nothing is in flight, the client was not told anything, but it holds %s at position %d while the broker state (admitted keys) is %s at stream top %d; lost change: operation %d, handed to the node while the subscriber was at %q (%s)",
		fmtMap(r.rc.m), r.rc.off, fmtMap(want), top, lostID, r.delivAt[lostID], kind)}, ""
}

// attempt collects what one execution of one behaviour produced (same methods as vh.Result).
type attempt struct {
	violations []vh.Violation
	drifts     []vh.Drift
	distinct   []string
	samples    []any
	completed  int
}

func (a *attempt) Violate(prop, sig, what string, replay any) {
	a.violations = append(a.violations, vh.Violation{Prop: prop, Sig: sig, What: what, Replay: replay})
}
func (a *attempt) Drift(prop, what string, replay any) {
	a.drifts = append(a.drifts, vh.Drift{Prop: prop, What: what, Replay: replay})
}
func (a *attempt) Distinct(key string) { a.distinct = append(a.distinct, key) }
func (a *attempt) Sample(s any)        { a.samples = append(a.samples, s) }
func (a *attempt) Done(_, completed int) {
	a.completed = completed
}

func (a *attempt) sigs() string {
	var ss []string
	for _, v := range a.violations {
		ss = append(ss, v.Prop+":"+v.Sig)
	}
	sort.Strings(ss)
	return strings.Join(ss, ",")
}

// execute runs one behaviour; anything but a clean pass is re-executed on a fresh node (up to two more times):
// a violation counts only when it shows again with the same signature, a drift only when every execution drifts
// (marked FLAKY when the executions disagree with each other - timeouts on an overloaded machine).
func execute(w *worker, liveLimit int, bi int, beh []map[string]any, res *vh.Result, maxResub int) {
	runOn := func(w *worker, try int) *attempt {
		a := &attempt{}
		func() {
			defer func() {
				if p := recover(); p != nil {
					a.Drift("", fmt.Sprintf("panic in behaviour %d: %v", bi, p), nil)
					a.completed = 0
				}
			}()
			w.run(bi, try, beh, a, maxResub)
		}()
		return a
	}
	fresh := func(try int) *attempt {
		w2, err := newWorker(liveLimit)
		if err != nil {
			return &attempt{drifts: []vh.Drift{{What: "newWorker: " + err.Error()}}}
		}
		defer w2.env.Close()
		return runOn(w2, try)
	}
	a := runOn(w, 0)
	final := a
	switch {
	case len(a.violations) > 0:
		res.Count("violations_reexecuted", 1)
		b := fresh(1)
		if b.sigs() != a.sigs() {
			c := fresh(2)
			switch {
			case c.sigs() == a.sigs():
				final = c
			case len(b.violations) == 0 && len(b.drifts) == 0 && len(c.violations) == 0 && len(c.drifts) == 0:
				res.Count("violations_not_reproduced", 1)
				final = c // passed twice: the first execution was disturbed
			default:
				final = &attempt{drifts: []vh.Drift{{What: fmt.Sprintf("FLAKY behaviour %d: violation %s was not reproduced (second execution: %s / %d drifts, third: %s / %d drifts)", bi, a.sigs(), b.sigs(), len(b.drifts), c.sigs(), len(c.drifts)), Replay: a.violations[0].Replay}}}
			}
		}
	case len(a.drifts) > 0:
		res.Count("drifts_reexecuted", 1)
		whats := []string{a.drifts[0].What}
		for try := 1; try <= 2; try++ {
			b := fresh(try)
			if len(b.drifts) == 0 {
				final = b // a clean pass or a (to be confirmed) violation
				if len(b.violations) > 0 {
					c := fresh(try + 1)
					if c.sigs() != b.sigs() {
						final = &attempt{drifts: []vh.Drift{{What: fmt.Sprintf("FLAKY behaviour %d: drift, then violation %s, then %s", bi, b.sigs(), c.sigs()), Replay: b.violations[0].Replay}}}
					}
				} else {
					res.Count("drifts_not_reproduced", 1)
				}
				break
			}
			whats = append(whats, b.drifts[0].What)
			final = b
		}
		if len(final.drifts) > 0 && len(whats) == 3 && !(whats[0] == whats[1] && whats[1] == whats[2]) {
			final.drifts[0].What = "FLAKY " + final.drifts[0].What
		}
	}
	for _, v := range final.violations {
		res.Violate(v.Prop, v.Sig, v.What, v.Replay)
	}
	for _, d := range final.drifts {
		res.Drift(d.Prop, d.What, d.Replay)
	}
	for _, k := range final.distinct {
		res.Distinct(k)
	}
	for _, x := range final.samples {
		res.Sample(x)
	}
	res.Done(1, final.completed)
}

func (w *worker) run(bi int, try int, beh []map[string]any, res *attempt, maxResub int) {
	cfg := vh.Map(beh[0]["cfg"])
	r := &runner{w: w, ch: fmt.Sprintf("ms%d_%d_%d", vh.Seed(), bi, try), cfg: cfg, mode: vh.Str(cfg["mode"]), kind: vh.Str(cfg["kind"]),
		filt: vh.Bool(cfg["filt"]), sf: vh.Bool(cfg["sf"]), page: vh.Int(cfg["page"]), ssize: vh.Int(cfg["ssize"]),
		ktag: map[int]string{}, deliveries: map[int]delivery{}, epochs: map[string]int{}, cmdIDs: map[uint32]string{}, refreshAt: -1, delivAt: map[int]string{}}
	for i, t := range vh.List(cfg["ktag"]) {
		r.ktag[i+1] = vh.Str(t)
	}
	r.rc = freshClient()
	if r.kind != "fresh" {
		r.rc.ph = "init"
	}
	w.register(r)
	defer w.unregister(r)
	conn, err := w.env.NewConn("u", centrifuge.ProtocolTypeJSON)
	if err != nil {
		res.Drift("", "NewConn: "+err.Error(), nil)
		res.Done(1, 0)
		return
	}
	r.conn = conn
	defer func() { conn.Client.Disconnect(); conn.Cancel() }()
	if conn.Connect() == nil {
		res.Drift("", "connect failed", nil)
		res.Done(1, 0)
		return
	}
	r.registerEpoch(1)
	ctx := context.Background()
	var steps []any
	completed := 1
	var lastSt map[string]any
	replayObj := func() map[string]any {
		o := map[string]any{"cfg": cfg, "steps": steps, "frames": r.project(), "client_map": fmtMap(r.rc.m)}
		if lastSt != nil {
			o["model_out"] = modelOut(lastSt)
		}
		return o
	}
	violate := func(v verdict) {
		res.Violate(v.prop, v.sig, v.what+fmt.Sprintf(" (behaviour %d cfg %s)", bi, vh.J(cfg)), replayObj())
		completed = 0
	}
	// machinery trouble: nothing can be concluded
	trouble := func(what string) {
		res.Drift("", fmt.Sprintf("%s (behaviour %d, cfg %s)", what, bi, vh.J(cfg)), replayObj())
		completed = 0
	}
	// the real code disagrees with the model: finish on the real code and judge it there
	diverged := func(what string) {
		vs, problem := r.freeRun(maxResub)
		if len(vs) > 0 {
			for _, v := range vs {
				v.what += "; first difference to the model: " + what
				violate(v)
			}
			return
		}
		if problem != "" {
			what += "; afterwards: " + problem
		}
		trouble(what)
	}
	nontrivial := false
	tags := func(k int) map[string]string { return map[string]string{"t": r.ktag[k]} }
	issue := func(req *protocol.SubscribeRequest, posGate string, want string) {
		id := conn.NextID()
		r.newGates(posGate)
		r.cmdIDs[id] = "sub"
		r.rc.reqOff = r.rc.off
		done := make(chan struct{})
		r.cmdDone = done
		go func() {
			defer close(done)
			conn.Do(&protocol.Command{Id: id, Subscribe: req})
		}()
		if got := r.waitEvent(); got != want {
			diverged(fmt.Sprintf("after issuing the command the subscriber is at %q, the model says %q", got, want))
		}
	}
	cont := func(from string, want string) {
		r.mu.Lock()
		g := r.gates[from]
		r.mu.Unlock()
		if g == nil {
			trouble("no gate " + from)
			return
		}
		g.free()
		if got := r.waitEvent(); got != want {
			diverged(fmt.Sprintf("released from %q the subscriber is at %q, the model says %q", from, got, want))
		}
	}
	change := func(id int, key int, removed bool) {
		r.mu.Lock()
		r.curID = id
		r.mu.Unlock()
		var ur centrifuge.MapUpdateResult
		var err error
		if removed {
			ur, err = w.env.Node.MapRemove(ctx, r.ch, keyName(key), centrifuge.MapRemoveOptions{})
		} else {
			ur, err = w.env.Node.MapPublish(ctx, r.ch, keyName(key), centrifuge.MapPublishOptions{Data: []byte(strconv.Itoa(id)), Tags: tags(key)})
		}
		if err != nil {
			trouble("map change: " + err.Error())
			return
		}
		if ur.Suppressed {
			trouble("map change suppressed: " + string(ur.SuppressReason))
			return
		}
		if r.mode != "eph" {
			r.log = append(r.log, logEntry{ep: r.epochNum(ur.Position.Epoch), off: int(ur.Position.Offset), key: key, id: id})
		}
		if !r.captured(id) {
			trouble(fmt.Sprintf("change %d was not handed to the event handler", id))
		}
	}
	// an insufficient-state end runs on its own goroutine: wait for its push when the model has one
	waitUnsub := func(st, prev map[string]any) {
		mo, po := modelOut(st), modelOut(prev)
		if len(mo) <= len(po) || mo[len(mo)-1].T != "unsub" {
			return
		}
		want := 0
		for _, f := range mo {
			if f.T == "unsub" {
				want++
			}
		}
		conn.T.WaitFor(6*time.Second, func(rs []*protocol.Reply, closed bool) bool {
			n := 0
			for _, rep := range rs {
				if rep.Push != nil && rep.Push.Channel == r.ch && rep.Push.Unsubscribe != nil {
					n++
				}
			}
			return n >= want || closed
		})
	}
	// initial content: keys 1..n0 published once each, delivered to nobody
	for k := 1; k <= vh.Int(cfg["n0"]) && completed == 1; k++ {
		change(k, k, false)
		r.mu.Lock()
		delete(r.deliveries, k)
		r.mu.Unlock()
	}
	for si := 1; si < len(beh) && completed == 1; si++ {
		st := beh[si]
		prev := beh[si-1]
		lastSt = st
		step := vh.Map(st["step"])
		act := vh.Str(step["act"])
		steps = append(steps, step)
		pcNext := vh.Str(st["pc"])
		r.mu.Lock()
		r.modelEpoch = vh.Int(st["epoch"])
		r.mu.Unlock()
		r.hole = false
		for _, h := range vh.List(st["hz"]) {
			if vh.Str(h) == "hole" {
				r.hole = true
			}
		}
		switch act {
		case "Publish":
			change(vh.Int(step["id"]), vh.Int(step["key"]), false)
		case "Remove":
			change(vh.Int(step["id"]), vh.Int(step["key"]), true)
		case "KeyExpiry":
			// shorten the key's TTL through the public API (a suppressed if-new publish only refreshes the TTL), then run the sweep
			id, key := vh.Int(step["id"]), vh.Int(step["key"])
			r.mu.Lock()
			r.curID = id
			r.shortTTL = true
			r.mu.Unlock()
			ur, err := w.env.Node.MapPublish(ctx, r.ch, keyName(key), centrifuge.MapPublishOptions{Data: []byte("0"), Tags: tags(key), KeyMode: centrifuge.KeyModeIfNew, RefreshTTLOnSuppress: true})
			r.mu.Lock()
			r.shortTTL = false
			r.mu.Unlock()
			if err != nil || !ur.Suppressed {
				trouble(fmt.Sprintf("ttl refresh publish: err=%v suppressed=%v", err, ur.Suppressed))
				break
			}
			deadline := time.Now().Add(gateTimeout)
			for !r.captured(id) && time.Now().Before(deadline) {
				time.Sleep(2 * time.Millisecond)
				centrifuge.VerifMapSubSweepKeys(w.inner)
			}
			if !r.captured(id) {
				trouble("key did not expire")
				break
			}
			if r.mode != "eph" {
				top, ep := r.brokerPos()
				r.log = append(r.log, logEntry{ep: r.epochNum(ep), off: top, key: key, id: id})
			}
		case "StreamExpiry":
			if !centrifuge.VerifMapSubExpireStream(w.inner, r.ch) {
				trouble("no stream to expire")
			}
		case "Clear":
			if err := w.env.Node.MapClear(ctx, r.ch, centrifuge.MapClearOptions{}); err != nil {
				trouble("clear: " + err.Error())
			}
			r.clearAt = vh.Str(prev["pc"]) // no access here: the next one by the code under test re-creates the channel
		case "Deliver":
			id := vh.Int(step["id"])
			r.mu.Lock()
			d, ok := r.deliveries[id]
			delete(r.deliveries, id)
			r.mu.Unlock()
			if !ok {
				trouble(fmt.Sprintf("delivery %d not captured", id))
				break
			}
			r.delivAt[id] = vh.Str(prev["pc"])
			if err := w.gb.handler.HandlePublication(r.ch, d.pub, d.sp, false, nil); err != nil {
				trouble("deliver: " + err.Error())
			}
			waitUnsub(st, prev)
		case "DeliverBlocked":
			// the subscriber is parked at the hook map:replied and holds the buffer lock: the delivery must block in
			// SyncPublication until StopBuffering
			id := vh.Int(step["id"])
			r.mu.Lock()
			d, ok := r.deliveries[id]
			delete(r.deliveries, id)
			r.mu.Unlock()
			if !ok {
				trouble(fmt.Sprintf("delivery %d not captured", id))
				break
			}
			r.delivAt[id] = "rp"
			done := make(chan struct{})
			r.blocked = done
			go func() {
				defer close(done)
				_ = w.gb.handler.HandlePublication(r.ch, d.pub, d.sp, false, nil)
			}()
			select {
			case <-done:
				diverged("a positioned delivery made while the live transition holds the buffer lock did not block")
			case <-time.After(15 * time.Millisecond):
			}
		case "Unblock":
			if r.blocked == nil {
				trouble("no blocked delivery")
				break
			}
			select {
			case <-r.blocked:
				r.blocked = nil
			case <-time.After(gateTimeout):
				trouble("the blocked delivery did not return after StopBuffering")
			}
			waitUnsub(st, prev)
		case "TransStop":
			cont("rp", pcNext)
		case "StateCmd", "StreamCmd", "JoinCmd":
			want := map[string]string{"StateCmd": "state", "StreamCmd": "stream", "JoinCmd": "join"}[act]
			if r.rc.ph != want {
				diverged(fmt.Sprintf("the model's client sends a %s command, the real client is in phase %q", want, r.rc.ph))
				break
			}
			r.lastCmd = act
			issue(r.nextRequest(), map[string]string{"StateCmd": "sp", "StreamCmd": "tp", "JoinCmd": "tp"}[act], pcNext)
		case "StateLast":
			cont("sr", pcNext)
		case "StateDecide":
			cont("sp", pcNext)
		case "StreamDecide":
			cont("tp", pcNext)
		case "TransRead":
			cont("g1", pcNext)
		case "TransFinish":
			from := "g3"
			if r.mode == "eph" {
				from = "g1"
			}
			cont(from, pcNext)
			if mo := modelOut(st); len(mo) > 0 && mo[len(mo)-1].T == "disc" {
				conn.T.WaitFor(6*time.Second, func(_ []*protocol.Reply, closed bool) bool { return closed })
			}
			nontrivial = true
		case "PosCheck":
			if !r.positionTick(6 * time.Second) {
				diverged("the position check did not end the subscription (no unsubscribe push)")
			}
		case "Snapshot":
			// a client that was subscribed earlier and is exactly up to date: its map and position are the broker's
			bs, err := r.brokerState()
			if err != nil {
				trouble("snapshot: " + err.Error())
				break
			}
			top, ep := r.brokerPos()
			c := freshClient()
			for k, id := range bs {
				if !r.filteredNow(k) {
					c.m[k] = id
				}
			}
			c.off, c.ep, c.epStr, c.first, c.rec, c.full = top, r.epochNum(ep), ep, false, true, true
			c.ph = map[bool]string{true: "join", false: "stream"}[r.kind == "rlive"]
			r.rc = c
		case "Jump":
			// an out-of-order move the code accepts for one reservation: the client changes its mind about the next request
			to := vh.Str(step["to"])
			if r.rc.first || r.rc.ph == "live" || r.rc.ph == "told" || r.rc.ph == "gone" {
				diverged(fmt.Sprintf("the model's client jumps to %s, the real client is in phase %q", to, r.rc.ph))
				break
			}
			r.rc.ph = to
		case "Resub":
			if r.rc.ph != "told" {
				diverged(fmt.Sprintf("the model's client resubscribes, the real client is in phase %q", r.rc.ph))
				break
			}
			r.resubs++
			r.rc = freshClient()
			r.clearAt = ""
		case "SubRefresh":
			changed := vh.Bool(step["changed"])
			if changed {
				r.mu.Lock()
				r.sfAll = true
				r.mu.Unlock()
			}
			id := conn.NextID()
			r.cmdIDs[id] = "refresh"
			before := len(conn.T.Replies())
			conn.Do(&protocol.Command{Id: id, SubRefresh: &protocol.SubRefreshRequest{Channel: r.ch, Token: "t"}})
			ok := conn.T.WaitFor(6*time.Second, func(rs []*protocol.Reply, closed bool) bool {
				for i, rep := range rs {
					if i < before {
						continue
					}
					if rep.Id == id {
						return true
					}
					if rep.Push != nil && rep.Push.Channel == r.ch && rep.Push.Unsubscribe != nil {
						return true
					}
				}
				return closed
			})
			if !ok {
				trouble("sub refresh produced neither a reply nor an unsubscribe")
				break
			}
			if changed {
				// C16: a changed server tags filter invalidates the map subscription
				mo := modelOut(st)
				expectBadRequest := len(mo) > 0 && mo[len(mo)-1].T == "disc" && mo[len(mo)-1].Code == 3501 // ClientSideRefresh lost by a continuation command (as coded)
				conn.T.WaitFor(time.Second, func(rs []*protocol.Reply, closed bool) bool {
					if closed {
						return true
					}
					if expectBadRequest {
						return false
					}
					// the command is answered first, the unsubscribe push follows
					for i, rep := range rs {
						if i >= before && rep.Push != nil && rep.Push.Channel == r.ch && rep.Push.Unsubscribe != nil {
							return true
						}
					}
					return false
				})
				real := r.project()
				if last := real[len(real)-1]; !(last.T == "unsub" && last.Code == 2502) && !(expectBadRequest && last.T == "disc" && last.Code == 3501) {
					violate(verdict{"C16", "server-filter-change-not-invalidated", fmt.Sprintf("the server tags filter of a live map subscription changed but the connection got %s instead of an unsubscribe with code 2502", vh.J(last))})
				}
			}
		default:
			trouble("unknown action " + act)
		}
		if completed == 0 {
			break
		}
		if pcNext != "idle" {
			continue
		}
		if ws := vh.List(st["wire"]); len(ws) > 0 && vh.Bool(vh.Map(ws[0])["blk"]) {
			continue // StopBuffering released a blocked delivery: it runs now (the model's next step is Unblock)
		}
		r.freeAll()
		real, vs := r.settle()
		mo := modelOut(st)
		if len(vs) > 0 {
			for _, v := range vs {
				violate(v)
			}
			break
		}
		if !sameFrames(real, mo) {
			diverged(fmt.Sprintf("frames differ after %s: real %s, model %s", act, vh.J(real), vh.J(mo)))
			break
		}
		// C22 at quiescent points: the real client map against the real broker state
		mcl := vh.Map(st["cl"])
		quiescent := len(vh.List(st["wire"])) == 0 && r.rc.ph == "live" && vh.Str(mcl["ph"]) == "live" && r.rc.full
		if quiescent {
			msub := vh.Map(st["sub"])
			posValid := r.mode == "eph" || vh.Int(msub["ep"]) == vh.Int(st["epoch"])
			if !posValid {
				continue // not final: the periodic position check (action PosCheck) ends a subscription of an earlier epoch
			}
			bs, err := r.brokerState()
			if err != nil {
				trouble("ReadState: " + err.Error())
				break
			}
			want := map[int]int{}
			for k, id := range bs {
				if !r.filteredNow(k) {
					want[k] = id
				}
			}
			behind := false
			if r.mode != "eph" && !r.filt {
				top, _ := r.brokerPos()
				behind = top != r.rc.off
			}
			if fmtMap(want) != fmtMap(r.rc.m) || behind {
				hz := map[string]bool{}
				for _, h := range vh.List(st["hz"]) {
					hz[vh.Str(h)] = true
				}
				sig := "unexplained:" + r.mode + ":" + r.kind
				switch {
				case r.mode == "eph" && hz["clear"]:
					sig = "streamless:clear-unsignalled"
				case r.mode == "eph" && hz["win"]:
					sig = "streamless:update-before-subscribe-lost"
					// a publication push written before the live reply of the current subscription?
					lastLive := -1
					for i, f := range real {
						if f.T == "live" {
							lastLive = i
						}
					}
					for i := lastLive - 1; i >= 0 && real[i].T != "live" && real[i].T != "unsub" && real[i].T != "err"; i-- {
						if real[i].T == "pub" {
							sig = "streamless:update-in-live-window-lost"
						}
					}
				case r.mode != "eph" && hz["hole"]:
					sig = "stream:non-contiguous-read-accepted:" + r.kind
				default:
					if v, _ := r.judge(""); v != nil {
						violate(*v)
						break
					}
				}
				if completed == 0 {
					break
				}
				violate(verdict{"C22", sig, fmt.Sprintf("nothing is in flight, the client was not told anything, but it holds %s (position %d) while the broker state (admitted keys) is %s", fmtMap(r.rc.m), r.rc.off, fmtMap(want))})
				break
			}
		}
	}
	r.freeAll()
	if r.cmdDone != nil {
		select {
		case <-r.cmdDone:
		case <-time.After(gateTimeout):
		}
	}
	if r.blocked != nil {
		select {
		case <-r.blocked:
		case <-time.After(gateTimeout):
		}
	}
	if completed == 1 && nontrivial {
		res.Distinct(vh.J(cfg) + vh.J(steps))
	}
	if bi < 2 {
		res.Sample(replayObj())
	}
	res.Done(1, completed)
}

type replayIn struct {
	LiveLimit  int                `json:"live_limit"`
	MaxResub   int                `json:"max_resub"`
	Behaviours [][]map[string]any `json:"behaviours"`
}

func replay(in json.RawMessage, res *vh.Result) error {
	var ri replayIn
	if err := json.Unmarshal(in, &ri); err != nil {
		return err
	}
	centrifuge.VerifSetGate(hook)
	defer centrifuge.VerifSetGate(nil)
	const nw = 8
	var wg sync.WaitGroup
	jobs := make(chan int)
	for i := 0; i < nw; i++ {
		w, err := newWorker(ri.LiveLimit)
		if err != nil {
			return err
		}
		wg.Add(1)
		go func() {
			defer wg.Done()
			defer w.env.Close()
			for bi := range jobs {
				execute(w, ri.LiveLimit, bi, ri.Behaviours[bi], res, ri.MaxResub)
			}
		}()
	}
	for bi := range ri.Behaviours {
		jobs <- bi
	}
	close(jobs)
	wg.Wait()
	return nil
}

// probe: which stream-read semantics does the tree have?  (stream expired between the client's position and the top:
// as coded the recovery join answers recovered=true with nothing; with the continuity check it answers 112)
func probe(_ json.RawMessage, res *vh.Result) error {
	w, err := newWorker(3)
	if err != nil {
		return err
	}
	defer w.env.Close()
	r := &runner{w: w, ch: "probe", mode: "per", kind: "rlive", page: 1, ssize: 2, ktag: map[int]string{1: "keep", 2: "keep"},
		deliveries: map[int]delivery{}, epochs: map[string]int{}, cmdIDs: map[uint32]string{}, refreshAt: -1}
	w.runners.Store(r.ch, r)
	r.newGates("tp")
	r.freeAll()
	ctx := context.Background()
	for i := 1; i <= 2; i++ {
		if _, err := w.env.Node.MapPublish(ctx, r.ch, "k1", centrifuge.MapPublishOptions{Data: []byte(strconv.Itoa(i))}); err != nil {
			return err
		}
	}
	_, ep := r.brokerPos()
	centrifuge.VerifMapSubExpireStream(w.inner, r.ch)
	conn, err := w.env.NewConn("u", centrifuge.ProtocolTypeJSON)
	if err != nil {
		return err
	}
	defer func() { conn.Client.Disconnect(); conn.Cancel() }()
	if conn.Connect() == nil {
		return fmt.Errorf("connect failed")
	}
	id := conn.NextID()
	conn.Do(&protocol.Command{Id: id, Subscribe: &protocol.SubscribeRequest{Channel: r.ch, Type: int32(centrifuge.SubscriptionTypeMap), Phase: centrifuge.MapPhaseLive, Recover: true, Offset: 1, Epoch: ep, Limit: 1}})
	rep := conn.WaitReply(id, 3*time.Second)
	if rep == nil {
		return fmt.Errorf("probe: no reply")
	}
	res.Extra["contig"] = rep.Error != nil && rep.Error.Code == 112
	res.Extra["reply"] = cl.Describe(rep)

	// second question: does the live transition drop buffered publications at or before its position?
	// (publish held on the wire, state read sees it, delivery inside the buffering window)
	r2 := &runner{w: w, ch: "probe2", mode: "per", kind: "fresh", page: 2, ssize: 2, ktag: map[int]string{1: "keep", 2: "keep"},
		deliveries: map[int]delivery{}, epochs: map[string]int{}, cmdIDs: map[uint32]string{}, refreshAt: -1}
	w.runners.Store(r2.ch, r2)
	r2.conn = conn
	r2.rc = freshClient()
	r2.curID = 1
	if _, err := w.env.Node.MapPublish(ctx, r2.ch, "k1", centrifuge.MapPublishOptions{Data: []byte("1")}); err != nil {
		return err
	}
	if !r2.captured(1) {
		return fmt.Errorf("probe2: publication not captured")
	}
	r2.newGates("sp")
	id2 := conn.NextID()
	done := make(chan struct{})
	r2.cmdDone = done
	go func() {
		defer close(done)
		conn.Do(&protocol.Command{Id: id2, Subscribe: &protocol.SubscribeRequest{Channel: r2.ch, Type: int32(centrifuge.SubscriptionTypeMap), Phase: centrifuge.MapPhaseState, Limit: 2}})
	}()
	// release every gate the subscriber reaches (a tree that skips one of them is judged by the replay, not here)
	for {
		got := r2.waitEvent()
		if got == "idle" || got == "timeout" {
			r2.freeAll()
			break
		}
		if got == "g1" {
			d := r2.deliveries[1]
			if err := w.gb.handler.HandlePublication(r2.ch, d.pub, d.sp, false, nil); err != nil {
				return err
			}
		}
		r2.mu.Lock()
		g := r2.gates[got]
		r2.mu.Unlock()
		g.free()
	}
	rep2 := conn.WaitReply(id2, 3*time.Second)
	if rep2 == nil || rep2.Subscribe == nil {
		return fmt.Errorf("probe2: no subscribe reply")
	}
	res.Extra["dropstale"] = len(rep2.Subscribe.Publications) == 0
	res.Extra["reply2"] = cl.Describe(rep2)
	res.Done(1, 1)
	return nil
}

// publish makes one change through the node API for the directed schedules (the delivery is captured under id).
func (r *runner) publish(id, key int) error {
	r.mu.Lock()
	r.curID = id
	r.mu.Unlock()
	ur, err := r.w.env.Node.MapPublish(context.Background(), r.ch, keyName(key), centrifuge.MapPublishOptions{Data: []byte(strconv.Itoa(id)), Tags: map[string]string{"t": r.ktag[key]}})
	if err != nil {
		return err
	}
	r.log = append(r.log, logEntry{ep: r.epochNum(ur.Position.Epoch), off: int(ur.Position.Offset), key: key, id: id})
	if !r.captured(id) {
		return fmt.Errorf("change %d was not handed to the event handler", id)
	}
	return nil
}

func (r *runner) take(id int) (delivery, bool) {
	r.mu.Lock()
	defer r.mu.Unlock()
	d, ok := r.deliveries[id]
	delete(r.deliveries, id)
	return d, ok
}

// drive issues the reference client's next command and releases every gate the subscriber reaches; when it reaches
// gate `at` the action runs first.  Reports whether the command finished.
func (r *runner) drive(at string, action func()) bool {
	req := r.nextRequest()
	if req == nil {
		return false
	}
	posGate := "tp"
	r.lastCmd = map[string]string{"state": "StateCmd", "stream": "StreamCmd", "join": "JoinCmd"}[r.rc.ph]
	if r.rc.ph == "state" {
		posGate = "sp"
	}
	id := r.conn.NextID()
	r.newGates(posGate)
	r.cmdIDs[id] = "sub"
	r.rc.reqOff = r.rc.off
	done := make(chan struct{})
	r.cmdDone = done
	go func() {
		defer close(done)
		r.conn.Do(&protocol.Command{Id: id, Subscribe: req})
	}()
	for {
		ev := r.waitEvent()
		if ev == "idle" {
			return true
		}
		if ev == "timeout" {
			r.freeAll()
			return false
		}
		if ev == at {
			action()
		}
		r.mu.Lock()
		g := r.gates[ev]
		r.mu.Unlock()
		g.free()
	}
}

// windows: directed schedules for the two windows of the live transition that random behaviours hit only sometimes.
//
//	top-probe:  a change is published and handed to the node between the stream top probe of the last state page and
//	            the hub registration (nobody is subscribed yet: the transition's stream read must catch it up);
//	lock:<kind>: for each kind of live transition the subscriber is parked at the hook "map:replied" (reply enqueued,
//	            buffer still locked), a change is handed to the node on another goroutine (it must block on the buffer
//	            lock), the subscriber is released; the change must reach the client after the reply.
//
// The verdict is the convergence monitor on the real code: client map == broker state, position == stream top.
func windows(_ json.RawMessage, res *vh.Result) error {
	centrifuge.VerifSetGate(hook)
	defer centrifuge.VerifSetGate(nil)
	w, err := newWorker(3)
	if err != nil {
		return err
	}
	defer w.env.Close()
	type schedule struct{ name, kind, at string }
	for i, sc := range []schedule{{"top-probe", "fresh", "sp"}, {"lock:state-to-live", "fresh", "rp"}, {"lock:stream-to-live", "rstream", "rp"}, {"lock:recovery-join", "rlive", "rp"},
		{"clear:between-probe-and-live-read", "fresh", "sp"}} {
		err := func() error {
			r := &runner{w: w, ch: fmt.Sprintf("win%d_%d", vh.Seed(), i), mode: "per", kind: sc.kind, page: 2, ssize: 4, ktag: map[int]string{1: "keep", 2: "keep"},
				deliveries: map[int]delivery{}, epochs: map[string]int{}, cmdIDs: map[uint32]string{}, refreshAt: -1, delivAt: map[int]string{}}
			w.register(r)
			defer w.unregister(r)
			conn, err := w.env.NewConn("u", centrifuge.ProtocolTypeJSON)
			if err != nil {
				return err
			}
			r.conn = conn
			defer func() { conn.Client.Disconnect(); conn.Cancel() }()
			if conn.Connect() == nil {
				return fmt.Errorf("connect failed")
			}
			r.registerEpoch(1)
			r.rc = freshClient()
			steps := []string{"publish k1 (#1), nobody subscribed"}
			if err := r.publish(1, 1); err != nil {
				return err
			}
			r.take(1)
			next := 2
			if sc.kind != "fresh" {
				// a client that was subscribed earlier and is up to date here; one more change to recover
				bs, err := r.brokerState()
				if err != nil {
					return err
				}
				top, ep := r.brokerPos()
				c := freshClient()
				for k, id := range bs {
					c.m[k] = id
				}
				c.off, c.ep, c.epStr, c.first, c.rec, c.full = top, r.epochNum(ep), ep, false, true, true
				c.ph = map[bool]string{true: "join", false: "stream"}[sc.kind == "rlive"]
				r.rc = c
				if err := r.publish(2, 1); err != nil {
					return err
				}
				r.take(2)
				next = 3
				steps = append(steps, "client snapshot at the top", "publish k1 (#2), nobody subscribed")
			}
			reached, notBlocked := false, false
			var actErr error
			finished := r.drive(sc.at, func() {
				reached = true
				if strings.HasPrefix(sc.name, "clear:") {
					// the channel is deleted after the stream top probe and nothing re-creates it before the transition's stream
					// read: the broker answers that read with a fresh epoch at offset 0 and no error
					r.mu.Lock()
					r.modelEpoch = 2
					r.mu.Unlock()
					r.clearAt = sc.at
					actErr = w.env.Node.MapClear(context.Background(), r.ch, centrifuge.MapClearOptions{})
					return
				}
				if actErr = r.publish(next, 2); actErr != nil {
					return
				}
				d, _ := r.take(next)
				r.delivAt[next] = sc.at
				if sc.at == "rp" {
					done := make(chan struct{})
					r.blocked = done
					go func() {
						defer close(done)
						_ = w.gb.handler.HandlePublication(r.ch, d.pub, d.sp, false, nil)
					}()
					select {
					case <-done:
						notBlocked = true
					case <-time.After(30 * time.Millisecond):
					}
				} else {
					_ = w.gb.handler.HandlePublication(r.ch, d.pub, d.sp, false, nil)
				}
			})
			if strings.HasPrefix(sc.name, "clear:") {
				steps = append(steps, fmt.Sprintf("%s command; at gate %q (after the stream top probe): MapClear, nothing published; release", r.lastCmd, sc.at))
			} else {
				steps = append(steps, fmt.Sprintf("%s command; at gate %q: publish k2 (#%d) and hand it to the node; release", r.lastCmd, sc.at, next))
			}
			if actErr != nil {
				return actErr
			}
			if r.blocked != nil {
				select {
				case <-r.blocked:
				case <-time.After(gateTimeout):
					res.Drift("C22", "directed schedule "+sc.name+": the delivery made while the buffer was locked never returned", nil)
					res.Done(1, 0)
					return nil
				}
			}
			r.mu.Lock()
			r.gates = nil
			r.mu.Unlock()
			var vs []verdict
			for j := 0; j < 6; j++ { // finish the protocol if the command did not end live
				_, v := r.settle()
				vs = append(vs, v...)
				if r.rc.ph == "told" && strings.HasPrefix(sc.name, "clear:") {
					r.rc = freshClient() // told unrecoverable: subscribe from scratch, which must converge
					r.clearAt = ""
				}
				req := r.nextRequest()
				if req == nil || !finished {
					break
				}
				if !r.sendSync(req) {
					break
				}
			}
			replay := map[string]any{"schedule": sc.name, "steps": steps, "frames": r.project(), "client_map": fmtMap(r.rc.m)}
			for _, v := range vs {
				res.Violate(v.prop, v.sig, v.what+" (directed schedule "+sc.name+")", replay)
			}
			switch {
			case !finished || !reached:
				res.Drift("C22", fmt.Sprintf("directed schedule %s: gate %q reached=%v, command finished=%v", sc.name, sc.at, reached, finished), replay)
				res.Done(1, 0)
				return nil
			case notBlocked:
				res.Drift("C22", "directed schedule "+sc.name+": the delivery made while the buffer is locked did not block", replay)
			}
			v, problem := r.judge("directed schedule " + sc.name + ": ")
			if v != nil {
				res.Violate(v.prop, v.sig, v.what, replay)
			} else if problem != "" {
				res.Drift("C22", "directed schedule "+sc.name+": "+problem, replay)
			}
			res.Distinct(sc.name)
			res.Done(1, 1)
			return nil
		}()
		if err != nil {
			return fmt.Errorf("schedule %s: %w", sc.name, err)
		}
	}
	return joinSchedules(w, res)
}

// joinSchedules: a LIVE request with recover ("paginated join") for a channel whose reservation from earlier STATE pages
// is still installed - the command skips OnSubscribe and reuses the stored options and filters.  Server tags filter
// keeps tag "keep"; k1 is tagged keep, k2 drop.
//
//	join:pages-pending   first state page of two, a change of k2 in the gap, LIVE join from that page's position,
//	                     then k2 and k1 change live;
//	join:state-complete  single state page answered STATE because three changes of k2 land between the state read and
//	                     the top probe, LIVE join from the state position, then k2 changes live.
//
// Monitors: nothing excluded by the filter in any frame (C16); convergence on the filtered view when the client has
// seen every state page (C22).
func joinSchedules(w *worker, res *vh.Result) error {
	for i, name := range []string{"join:pages-pending", "join:state-complete"} {
		err := func() error {
			page := 1
			if name == "join:state-complete" {
				page = 2
			}
			r := &runner{w: w, ch: fmt.Sprintf("join%d_%d", vh.Seed(), i), mode: "per", kind: "fresh", filt: true, sf: true, page: page, ssize: 8,
				ktag: map[int]string{1: "keep", 2: "drop"}, deliveries: map[int]delivery{}, epochs: map[string]int{}, cmdIDs: map[uint32]string{}, refreshAt: -1, delivAt: map[int]string{}}
			w.register(r)
			defer w.unregister(r)
			conn, err := w.env.NewConn("u", centrifuge.ProtocolTypeJSON)
			if err != nil {
				return err
			}
			r.conn = conn
			defer func() { conn.Client.Disconnect(); conn.Cancel() }()
			if conn.Connect() == nil {
				return fmt.Errorf("connect failed")
			}
			r.registerEpoch(1)
			r.rc = freshClient()
			next := 0
			var steps []string
			change := func(key int, deliver bool) error {
				next++
				if err := r.publish(next, key); err != nil {
					return err
				}
				d, _ := r.take(next)
				r.delivAt[next] = "idle"
				steps = append(steps, fmt.Sprintf("publish %s (#%d, tag %s)", keyName(key), next, r.ktag[key]))
				if deliver {
					return w.gb.handler.HandlePublication(r.ch, d.pub, d.sp, false, nil)
				}
				return nil // nobody subscribed: the delivery reaches no one
			}
			var actErr error
			if name == "join:pages-pending" {
				if err := change(1, false); err != nil {
					return err
				}
				if err := change(2, false); err != nil {
					return err
				}
				if !r.drive("", nil) {
					return fmt.Errorf("first state page did not finish")
				}
				steps = append(steps, "STATE request, page size 1 (cursor pending)")
				r.settle()
				if err := change(2, false); err != nil {
					return err
				}
			} else {
				if err := change(1, false); err != nil {
					return err
				}
				ok := r.drive("sr", func() {
					for j := 0; j < 3 && actErr == nil; j++ {
						actErr = change(2, false)
					}
				})
				if actErr != nil {
					return actErr
				}
				if !ok {
					return fmt.Errorf("state page did not finish")
				}
				steps = append(steps, "STATE request, page size 2; the three changes land after the state read, before the top probe")
				r.settle()
			}
			replayObj := func() map[string]any {
				return map[string]any{"schedule": name, "steps": steps, "frames": r.project(), "client_map": fmtMap(r.rc.m)}
			}
			if r.rc.ph != "state" && r.rc.ph != "stream" {
				res.Drift("", fmt.Sprintf("directed schedule %s: after the STATE request the client is in phase %q (expected a pending reservation)", name, r.rc.ph), replayObj())
				res.Done(1, 0)
				return nil
			}
			r.rc.ph = "join"
			steps = append(steps, fmt.Sprintf("LIVE request with recover from offset %d (reservation still installed)", r.rc.off))
			if !r.drive("", nil) {
				res.Drift("", "directed schedule "+name+": the LIVE request did not finish", replayObj())
				res.Done(1, 0)
				return nil
			}
			r.mu.Lock()
			r.gates = nil
			r.mu.Unlock()
			_, vs := r.settle()
			if r.rc.ph == "live" {
				if err := change(2, true); err != nil {
					return err
				}
				if err := change(1, true); err != nil {
					return err
				}
				_, v2 := r.settle()
				vs = append(vs, v2...)
			}
			seen := map[string]bool{}
			for _, v := range vs {
				if !seen[v.sig] {
					seen[v.sig] = true
					res.Violate(v.prop, v.sig, v.what+" (directed schedule "+name+")", replayObj())
				}
			}
			if r.rc.ph != "live" {
				res.Drift("", fmt.Sprintf("directed schedule %s: the LIVE join ended in phase %q", name, r.rc.ph), replayObj())
				res.Done(1, 0)
				return nil
			}
			if v, problem := r.judge("directed schedule " + name + ": "); v != nil {
				res.Violate(v.prop, v.sig, v.what, replayObj())
			} else if problem != "" {
				res.Drift("", "directed schedule "+name+": "+problem, replayObj())
			}
			res.Distinct(name)
			res.Done(1, 1)
			return nil
		}()
		if err != nil {
			return fmt.Errorf("schedule %s: %w", name, err)
		}
	}
	return nil
}

func main() {
	vh.Main(map[string]vh.Mode{"replay": replay, "probe": probe, "windows": windows, "presence": presence, "hubsub": hubsub, "limits": limits})
}
