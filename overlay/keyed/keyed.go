//go:build verif

package centrifuge

// VerifSharedPollRevokeKeys exposes SharedPollManager.SharedPollRevokeKeys (the manager hangs off an unexported
// Node field) to the verification harness. Read-only shim: no behaviour of its own.
func VerifSharedPollRevokeKeys(n *Node, channel string, keys []string) {
	if n.sharedPollManager == nil {
		return
	}
	n.sharedPollManager.SharedPollRevokeKeys(channel, keys, nil, nil)
}
