// C27: replay of the spec/Cluster/Control table on a two-node cluster of real nodes.
//
// Node A holds the four connections of the model (T, D, E, N) - fresh ones for every run -, node B holds none.
// A row (operation, option set X) is executed twice: "local" = the Node-level call is issued on A, "remote" = the
// same call with the same option values is issued on B and reaches A only as a control message (harness
// Controller -> Node.HandleControl). After a barrier on every connection the observable effect is rendered into
// the model's abstraction (which connections were touched; per touched connection a map component -> value) from
// public observations: the subscribe / unsubscribe / refresh pushes, transport close, OnUnsubscribe / OnDisconnect
// events, Client.Channels, ChannelsWithContext().Source, Client.Info, Node.Presence, join publications and
// History calls seen by the Broker wrapper, a join probe (push join/leave) and a publication probe (server tags
// filter). ChannelContext fields without a public reader (expireAt, metaTTLSeconds, flags) come from the overlay
// shim and are cross-checked against the public probes where both exist.
//
// Verdict: local effect != remote effect on the REAL nodes -> C27 violation. Attribution (signature): an option c of
// X is a culprit if the real local effect of X \ {c} moves towards the real remote effect (same rule as
// Control.tla Culprits); signature "<op>:option:<c>" (":field:" for ServerTagsFilter), else "<op>:unattributed:...".
// Differences between the real local effect / wire fields and the model's are drift.
package main

import (
	"encoding/json"
	"fmt"
	"sort"
	"strings"
	"sync"
	"sync/atomic"
	"time"

	"github.com/centrifugal/centrifuge"
	"github.com/centrifugal/protocol"

	"verifharness/vh"
)

var extraMu sync.Mutex

// smallest failing option set per signature (the report should show the minimal reproduction)
type c27Viol struct {
	n      int
	what   string
	replay any
}

var c27Viols = map[string]c27Viol{}

func c27Violate(sig string, n int, what string, replay any) {
	extraMu.Lock()
	defer extraMu.Unlock()
	if v, ok := c27Viols[sig]; !ok || n < v.n {
		c27Viols[sig] = c27Viol{n, what, replay}
	}
}

type effect struct {
	Touched []string          `json:"touched"`
	Per     map[string]string `json:"per"`
}

type c27Row struct {
	Op       string   `json:"op"`
	X        []string `json:"x"`
	Wire     []string `json:"wire"`
	Remote   []string `json:"remote"`
	Local    effect   `json:"local"`
	Reff     effect   `json:"reff"`
	Differs  bool     `json:"differs"`
	Culprits []string `json:"culprits"`
}

type c27In struct {
	Rows    []c27Row `json:"rows"`
	Workers int      `json:"workers"`
}

var c27Conns = []connSpec{
	{Name: "T", User: "u", Session: true, Label: "pro"},
	{Name: "D", User: "u", Session: false, Label: "free"},
	{Name: "E", User: "v", Session: true, Label: "pro"},
	{Name: "N", User: "", Session: false, Label: "pro"},
}

const (
	ciVal       = `{"ci":1}`
	sdVal       = `{"sd":1}`
	riVal       = `{"ri":1}`
	srcVal      = 7
	metaTTLVal  = 77 * time.Second
	customUnsub = 2600
	customDisc  = 4100
)

type c27Worker struct {
	id   int
	cl   *cluster
	seq  atomic.Int64
	runs int
	// connections reused by subscribe / unsubscribe runs (every run uses a fresh channel; nothing these two
	// operations leave behind on a connection is looked at by a later run); disconnect / refresh runs get fresh ones
	pool     map[string]*hconn
	poolUses int
}

// culprits established by the attribution of smaller option sets, per operation
var c27Established = map[string]map[string]bool{}

func established(op string, x []string) []string {
	extraMu.Lock()
	defer extraMu.Unlock()
	var out []string
	for _, o := range x {
		if c27Established[op][o] {
			out = append(out, o)
		}
	}
	return out
}

func establish(op string, cs []string) {
	extraMu.Lock()
	defer extraMu.Unlock()
	if c27Established[op] == nil {
		c27Established[op] = map[string]bool{}
	}
	for _, c := range cs {
		c27Established[op][c] = true
	}
}

func (w *c27Worker) dropPool() {
	for _, h := range w.pool {
		if !h.closed() {
			h.drop()
		} else {
			h.c.Cancel()
		}
	}
	w.pool = nil
	w.poolUses = 0
}

func newC27Worker(id int) (*c27Worker, error) {
	w := &c27Worker{id: id}
	c, err := newCluster(2, true, nil)
	if err != nil {
		return nil, err
	}
	w.cl = c
	return w, nil
}

func has(x []string, o string) bool {
	for _, v := range x {
		if v == o {
			return true
		}
	}
	return false
}

func without(x []string, o string) []string {
	var out []string
	for _, v := range x {
		if v != o {
			out = append(out, v)
		}
	}
	return out
}

type runResult struct {
	Eff   effect
	Wire  []string
	Notes []string // observations that could not be rendered (drift material)
	Raw   map[string]any
}

func agree(notes *[]string, comp string, vals ...string) string {
	v := vals[0]
	for _, o := range vals[1:] {
		if o != v {
			*notes = append(*notes, fmt.Sprintf("component %s: observations disagree %v", comp, vals))
			return "split:" + strings.Join(vals, "/")
		}
	}
	return v
}

func yn(b bool) string {
	if b {
		return "y"
	}
	return "n"
}

// waitClosed waits until the hinted connections are closed (or until the closed set is stable when there is no hint).
func waitClosed(conns map[string]*hconn, hint []string, haveHint bool) {
	if haveHint {
		deadline := time.Now().Add(3 * time.Second)
		for time.Now().Before(deadline) {
			all := true
			for _, n := range hint {
				if !conns[n].closed() {
					all = false
				}
			}
			if all {
				break
			}
			time.Sleep(200 * time.Microsecond)
		}
		time.Sleep(15 * time.Millisecond) // anything closed in addition was spawned by the same loop
		return
	}
	last, stableSince := -1, time.Now()
	deadline := time.Now().Add(1500 * time.Millisecond)
	for time.Now().Before(deadline) {
		n := 0
		for _, h := range conns {
			if h.closed() {
				n++
			}
		}
		if n != last {
			last, stableSince = n, time.Now()
		} else if time.Since(stableSince) > 60*time.Millisecond {
			return
		}
		time.Sleep(time.Millisecond)
	}
}

// run executes one variant of one row on fresh connections and renders the effect.
func (w *c27Worker) run(op string, x []string, remote bool, hint []string, haveHint bool) (*runResult, error) {
	w.runs++
	rr := &runResult{Eff: effect{Per: map[string]string{}}, Raw: map[string]any{}}
	A, B := w.cl.nodes[0], w.cl.nodes[1]
	caller := A
	if remote {
		caller = B
	}
	order := []string{"T", "D", "E", "N"}
	var conns map[string]*hconn
	reuse := op == "subscribe" || op == "unsubscribe"
	if reuse && w.pool != nil && w.poolUses < 150 {
		conns = w.pool
		w.poolUses++
	} else {
		if reuse {
			w.dropPool()
		}
		conns = map[string]*hconn{}
		for _, sp := range c27Conns {
			h, err := A.connectInfo(sp, `{"i":0}`)
			if err != nil {
				return nil, err
			}
			conns[sp.Name] = h
		}
		if reuse {
			w.pool = conns
			w.poolUses = 1
		} else {
			defer func() {
				for _, h := range conns {
					if !h.closed() {
						h.drop()
					} else {
						h.c.Cancel()
					}
				}
			}()
		}
	}
	byID := map[string]string{}
	for n, h := range conns {
		byID[h.id] = n
	}
	ch := fmt.Sprintf("k%d_%d_%d", vh.Seed(), w.id, w.seq.Add(1))
	user := "u"
	if has(x, "AnonUser") {
		user = ""
	}
	barrierAll := func() error {
		for _, n := range order {
			if conns[n].closed() {
				continue
			}
			if !conns[n].c.Barrier(3 * time.Second) {
				if conns[n].closed() {
					continue
				}
				return fmt.Errorf("barrier on %s failed", n)
			}
		}
		return nil
	}
	wire := func(mark int) {
		for _, m := range caller.ctrl.since(mark) {
			d, err := decodeControl(m.data)
			if err != nil || vh.Str(d["kind"]) != op {
				continue
			}
			f := vh.Map(d["fields"])
			rr.Raw["wire"] = f
			for k, v := range f {
				switch k {
				case "user", "channel":
					continue
				case "code":
					// unsubscribe / disconnect always carry a code and a reason: they count as set by an option
					// only when they are not the defaults
					if c := vh.Int(v); c == 2000 || c == 3503 {
						continue
					}
				case "reason":
					if s := vh.Str(v); s == "server unsubscribe" || s == "force disconnect" {
						continue
					}
				}
				rr.Wire = append(rr.Wire, k)
			}
		}
		sort.Strings(rr.Wire)
	}

	switch op {
	case "subscribe":
		// the stream: top offset 3, only offset 3 retained
		for i := 1; i <= 3; i++ {
			if _, err := A.env.Node.Publish(ch, []byte(fmt.Sprintf(`{"p":%d}`, i)), centrifuge.WithHistory(1, time.Minute), centrifuge.WithTags(map[string]string{"t": "keep"})); err != nil {
				return nil, err
			}
		}
		hr, err := A.env.Node.History(ch, centrifuge.WithLimit(0))
		if err != nil {
			return nil, err
		}
		expireAt := time.Now().Unix() + 3600
		var opts []centrifuge.SubscribeOption
		for _, o := range x {
			switch o {
			case "Client":
				opts = append(opts, centrifuge.WithSubscribeClient(conns["T"].id))
			case "Session":
				opts = append(opts, centrifuge.WithSubscribeSession(conns["T"].session))
			case "LabelFilter":
				opts = append(opts, centrifuge.WithSubscribeLabelFilter(tierFilter("pro")))
			case "AllUsers":
				opts = append(opts, centrifuge.WithSubscribeAllUsers(true))
			case "AnonUser":
			case "ExpireAt":
				opts = append(opts, centrifuge.WithExpireAt(expireAt))
			case "ChannelInfo":
				opts = append(opts, centrifuge.WithChannelInfo([]byte(ciVal)))
			case "EmitPresence":
				opts = append(opts, centrifuge.WithEmitPresence(true))
			case "EmitJoinLeave":
				opts = append(opts, centrifuge.WithEmitJoinLeave(true))
			case "PushJoinLeave":
				opts = append(opts, centrifuge.WithPushJoinLeave(true))
			case "Positioning":
				opts = append(opts, centrifuge.WithPositioning(true))
			case "Recovery":
				opts = append(opts, centrifuge.WithRecovery(true))
			case "RecoveryMode":
				opts = append(opts, centrifuge.WithRecoveryMode(centrifuge.RecoveryModeCache))
			case "Data":
				opts = append(opts, centrifuge.WithSubscribeData([]byte(sdVal)))
			case "RecoverSince":
				opts = append(opts, centrifuge.WithRecoverSince(&centrifuge.StreamPosition{Offset: 1, Epoch: hr.Epoch}))
			case "AutoCacheRecover":
				opts = append(opts, centrifuge.WithAutoCacheRecover(true))
			case "Source":
				opts = append(opts, centrifuge.WithSubscribeSource(srcVal))
			case "HistoryMetaTTL":
				opts = append(opts, centrifuge.WithSubscribeHistoryMetaTTL(metaTTLVal))
			case "ServerTagsFilter":
				opts = append(opts, func(o *centrifuge.SubscribeOptions) {
					o.ServerTagsFilter = &centrifuge.FilterNode{Key: "t", Cmp: "eq", Val: "keep"}
				})
			default:
				return nil, fmt.Errorf("unknown subscribe option %s", o)
			}
		}
		fm := map[string]int{}
		for n, h := range conns {
			fm[n] = h.frameMark()
		}
		jm, hm, cm := A.jlMark(), A.histMark(), caller.ctrl.mark()
		if err := caller.env.Node.Subscribe(user, ch, opts...); err != nil {
			rr.Notes = append(rr.Notes, "Node.Subscribe returned "+err.Error())
		}
		wire(cm)
		if err := barrierAll(); err != nil {
			return nil, err
		}
		joins := map[string]string{}
		for _, e := range A.jlSince(jm) {
			if e.Kind == "join" && e.Ch == ch {
				joins[byID[e.Client]] = e.Chan
			}
		}
		var hcalls []histCall
		for _, hc := range A.histSince(hm) {
			if hc.Ch == ch {
				hcalls = append(hcalls, hc)
			}
		}
		pres, err := A.env.Node.Presence(ch)
		if err != nil {
			return nil, err
		}
		var touched []string
		for _, n := range order {
			if conns[n].c.Client.IsSubscribed(ch) {
				touched = append(touched, n)
			}
		}
		// probes: a join from the helper, then two publications (tag drop, tag keep)
		fm2 := map[string]int{}
		for n, h := range conns {
			fm2[n] = h.frameMark()
		}
		if len(touched) > 0 {
			// Node.HandleJoin is where a join arriving from the broker enters the node (public BrokerEventHandler method)
			if err := A.env.Node.HandleJoin(ch, &centrifuge.ClientInfo{ClientID: "probe-client", UserID: "probe"}); err != nil {
				return nil, err
			}
			for _, tag := range []string{"drop", "keep"} {
				if _, err := A.env.Node.Publish(ch, []byte(`{"probe":"`+tag+`"}`), centrifuge.WithHistory(1, time.Minute), centrifuge.WithTags(map[string]string{"t": tag})); err != nil {
					return nil, err
				}
			}
			if err := barrierAll(); err != nil {
				return nil, err
			}
		}
		perOf := map[string]map[string]string{}
		for _, n := range touched {
			h := conns[n]
			p := map[string]string{}
			var push *protocol.Subscribe
			for _, r := range h.framesSince(fm[n])[:] {
				if r.Push != nil && r.Push.Channel == ch && r.Push.Subscribe != nil {
					if push != nil {
						rr.Notes = append(rr.Notes, "two subscribe pushes on "+n)
					}
					push = r.Push.Subscribe
				}
			}
			if push == nil {
				rr.Notes = append(rr.Notes, "no subscribe push on "+n)
				push = &protocol.Subscribe{}
			}
			ctx, ok := channelContext(h.c.Client, ch)
			if !ok {
				return nil, fmt.Errorf("no channel context for %s", n)
			}
			pubctx := h.c.Client.ChannelsWithContext()[ch]
			switch vh.Int(ctx["expire_at"]) {
			case 0:
				p["expire"] = "n"
			case int(expireAt):
				p["expire"] = "y"
			default:
				p["expire"] = fmt.Sprintf("other:%v", ctx["expire_at"])
			}
			infoVals := []string{yn(vh.Str(ctx["info"]) == ciVal)}
			if vh.Str(ctx["info"]) != ciVal && vh.Str(ctx["info"]) != "" {
				infoVals[0] = "other:" + vh.Str(ctx["info"])
			}
			pi, inPres := pres.Presence[h.id]
			if inPres {
				infoVals = append(infoVals, yn(string(pi.ChanInfo) == ciVal))
			}
			if ji, ok := joins[n]; ok {
				infoVals = append(infoVals, yn(ji == ciVal))
			}
			p["info"] = agree(&rr.Notes, "info", infoVals...)
			p["presence"] = agree(&rr.Notes, "presence", yn(inPres), yn(vh.Bool(ctx["presence"])))
			_, joined := joins[n]
			p["joinleave"] = agree(&rr.Notes, "joinleave", yn(joined), yn(vh.Bool(ctx["join_leave"])))
			gotJoin, pubs := false, []string{}
			for _, r := range h.framesSince(fm2[n]) {
				if r.Push == nil || r.Push.Channel != ch {
					continue
				}
				if r.Push.Join != nil && r.Push.Join.Info.GetClient() == "probe-client" {
					gotJoin = true
				}
				if r.Push.Pub != nil {
					pubs = append(pubs, string(r.Push.Pub.Data))
				}
			}
			p["pushjl"] = agree(&rr.Notes, "pushjl", yn(gotJoin), yn(vh.Bool(ctx["push_jl"])))
			p["positioned"] = agree(&rr.Notes, "positioned", yn(push.Positioned), yn(vh.Bool(ctx["positioning"])))
			p["recoverable"] = yn(push.Recoverable)
			switch string(push.Data) {
			case "":
				p["data"] = "n"
			case sdVal:
				p["data"] = "y"
			default:
				p["data"] = "other:" + string(push.Data)
			}
			p["source"] = agree(&rr.Notes, "source", yn(pubctx.Source == srcVal), yn(vh.Int(ctx["source"]) == srcVal))
			switch vh.Int(ctx["meta_ttl"]) {
			case 0:
				p["meta"] = "n"
			case int(metaTTLVal.Seconds()):
				p["meta"] = "y"
			default:
				p["meta"] = fmt.Sprintf("other:%v", ctx["meta_ttl"])
			}
			switch push.Offset {
			case 0:
				p["offset"] = "zero"
			case 3:
				p["offset"] = "top"
			case 1:
				p["offset"] = "since"
			default:
				p["offset"] = fmt.Sprintf("other:%d", push.Offset)
			}
			switch strings.Join(pubs, ",") {
			case `{"probe":"drop"},{"probe":"keep"}`:
				p["stf"] = "n"
			case `{"probe":"keep"}`:
				p["stf"] = "y"
			default:
				p["stf"] = "other:" + strings.Join(pubs, ",")
			}
			perOf[n] = p
		}
		// history calls: one per touched connection, all of the same shape
		hist, histmeta := "none", "n"
		if len(hcalls) > 0 {
			shapes := map[string]bool{}
			metas := map[string]bool{}
			for _, hc := range hcalls {
				switch {
				case hc.Since && hc.SinceO == 1 && !hc.Reverse:
					shapes["stream"] = true
				case !hc.Since && hc.Reverse && (hc.Limit == 1 || hc.Limit == -1): // limit 1 without, no limit with a tags filter
					shapes["cache"] = true
				case !hc.Since && !hc.Reverse && hc.Limit == 0:
					shapes["top"] = true
				default:
					shapes[fmt.Sprintf("other:%+v", hc)] = true
				}
				metas[yn(hc.MetaTTL == metaTTLVal)] = true
				if hc.MetaTTL != metaTTLVal && hc.MetaTTL != 0 {
					metas["other:"+hc.MetaTTL.String()] = true
				}
			}
			hist = strings.Join(sortedKeys(shapes), "+")
			histmeta = strings.Join(sortedKeys(metas), "+")
			if len(hcalls) != len(touched) {
				rr.Notes = append(rr.Notes, fmt.Sprintf("%d history calls for %d touched connections", len(hcalls), len(touched)))
			}
		}
		for _, n := range touched {
			perOf[n]["hist"] = hist
			perOf[n]["histmeta"] = histmeta
		}
		rr.Eff.Touched = touched
		w.merge(rr, perOf, touched, []string{"expire", "info", "presence", "joinleave", "pushjl", "positioned", "recoverable", "data", "source", "meta", "histmeta", "hist", "offset", "stf"})

	case "unsubscribe":
		for _, n := range order {
			if err := conns[n].c.Client.Subscribe(ch, centrifuge.WithEmitPresence(true)); err != nil {
				return nil, err
			}
			// a second channel: stays with a named-channel unsubscribe, goes with the empty channel (= all channels)
			if err := conns[n].c.Client.Subscribe(ch+"x", centrifuge.WithEmitPresence(true)); err != nil {
				return nil, err
			}
		}
		if err := barrierAll(); err != nil {
			return nil, err
		}
		chArg := ch
		if has(x, "EmptyChannel") {
			chArg = ""
		}
		var opts []centrifuge.UnsubscribeOption
		for _, o := range x {
			switch o {
			case "Client":
				opts = append(opts, centrifuge.WithUnsubscribeClient(conns["T"].id))
			case "Session":
				opts = append(opts, centrifuge.WithUnsubscribeSession(conns["T"].session))
			case "LabelFilter":
				opts = append(opts, centrifuge.WithUnsubscribeLabelFilter(tierFilter("pro")))
			case "AllUsers":
				opts = append(opts, centrifuge.WithUnsubscribeAllUsers(true))
			case "AnonUser", "EmptyChannel":
			case "Custom":
				opts = append(opts, centrifuge.WithCustomUnsubscribe(centrifuge.Unsubscribe{Code: customUnsub, Reason: "custom"}))
			default:
				return nil, fmt.Errorf("unknown unsubscribe option %s", o)
			}
		}
		fm := map[string]int{}
		for n, h := range conns {
			fm[n] = h.frameMark()
		}
		em, cm := A.evMark(), caller.ctrl.mark()
		if err := caller.env.Node.Unsubscribe(user, chArg, opts...); err != nil {
			rr.Notes = append(rr.Notes, "Node.Unsubscribe returned "+err.Error())
		}
		wire(cm)
		if err := barrierAll(); err != nil {
			return nil, err
		}
		evs := map[string][]string{}
		for _, ev := range A.evSince(em) {
			// (connections are reused: an empty-channel unsubscribe also removes channels earlier runs left behind)
			if ev.Kind == "unsubscribe" && (ev.Ch == ch || ev.Ch == ch+"x") {
				evs[byID[ev.Client]] = append(evs[byID[ev.Client]], fmt.Sprintf("%d/%s", ev.Code, ev.Extra))
			}
		}
		var touched []string
		perOf := map[string]map[string]string{}
		for _, n := range order {
			h := conns[n]
			var pushes []string
			for _, r := range h.framesSince(fm[n]) {
				if r.Push != nil && r.Push.Unsubscribe != nil && (r.Push.Channel == ch || r.Push.Channel == ch+"x" || r.Push.Channel == "") {
					pushes = append(pushes, fmt.Sprintf("%s/%d/%s", yn(r.Push.Channel != ""), r.Push.Unsubscribe.Code, r.Push.Unsubscribe.Reason))
				}
			}
			if h.c.Client.IsSubscribed(ch) {
				if len(pushes)+len(evs[n]) > 0 || !h.c.Client.IsSubscribed(ch+"x") {
					rr.Notes = append(rr.Notes, fmt.Sprintf("%s still subscribed to the channel but saw %v %v, second channel subscribed=%v", n, pushes, evs[n], h.c.Client.IsSubscribed(ch+"x")))
				}
				continue
			}
			touched = append(touched, n)
			rest, want := "kept", 1
			if !h.c.Client.IsSubscribed(ch + "x") {
				rest, want = "gone", 2
			}
			// one push and one event per channel removed, all with the same code and reason
			class := func(items []string, def, custom string) string {
				if len(items) != want {
					return fmt.Sprintf("other:%d of %d:%s", len(items), want, strings.Join(items, ","))
				}
				v := ""
				for _, it := range items {
					c := "other:" + it
					switch it {
					case def:
						c = "n"
					case custom:
						c = "y"
					}
					if v != "" && v != c {
						return "other:mixed:" + strings.Join(items, ",")
					}
					v = c
				}
				return v
			}
			pv := class(pushes, "y/2000/server unsubscribe", fmt.Sprintf("y/%d/custom", customUnsub))
			ev := class(evs[n], "2000/server_side=true reason=server unsubscribe", fmt.Sprintf("%d/server_side=true reason=custom", customUnsub))
			perOf[n] = map[string]string{"custom": agree(&rr.Notes, "custom", pv, ev), "rest": rest}
		}
		rr.Eff.Touched = touched
		w.merge(rr, perOf, touched, []string{"custom", "rest"})

	case "disconnect":
		var opts []centrifuge.DisconnectOption
		for _, o := range x {
			switch o {
			case "Client":
				opts = append(opts, centrifuge.WithDisconnectClient(conns["T"].id))
			case "Session":
				opts = append(opts, centrifuge.WithDisconnectSession(conns["T"].session))
			case "LabelFilter":
				opts = append(opts, centrifuge.WithDisconnectLabelFilter(tierFilter("pro")))
			case "AllUsers":
				opts = append(opts, centrifuge.WithDisconnectAllUsers(true))
			case "AnonUser":
			case "Custom":
				opts = append(opts, centrifuge.WithCustomDisconnect(centrifuge.Disconnect{Code: customDisc, Reason: "custom"}))
			case "Whitelist":
				opts = append(opts, centrifuge.WithDisconnectClientWhitelist([]string{conns["D"].id}))
			default:
				return nil, fmt.Errorf("unknown disconnect option %s", o)
			}
		}
		em, cm := A.evMark(), caller.ctrl.mark()
		if err := caller.env.Node.Disconnect(user, opts...); err != nil {
			rr.Notes = append(rr.Notes, "Node.Disconnect returned "+err.Error())
		}
		wire(cm)
		waitClosed(conns, hint, haveHint)
		if err := barrierAll(); err != nil {
			return nil, err
		}
		touched, perOf := w.closedEffect(rr, conns, order, byID, A, em, func(code uint32, reason string) string {
			switch {
			case code == 3503 && reason == "force disconnect":
				return "n"
			case code == customDisc && reason == "custom":
				return "y"
			}
			return fmt.Sprintf("other:%d/%s", code, reason)
		}, "custom")
		rr.Eff.Touched = touched
		w.merge(rr, perOf, touched, []string{"custom"})

	case "refresh":
		expireAt := time.Now().Unix() + 3600
		var opts []centrifuge.RefreshOption
		for _, o := range x {
			switch o {
			case "Client":
				opts = append(opts, centrifuge.WithRefreshClient(conns["T"].id))
			case "Session":
				opts = append(opts, centrifuge.WithRefreshSession(conns["T"].session))
			case "LabelFilter":
				opts = append(opts, centrifuge.WithRefreshLabelFilter(tierFilter("pro")))
			case "AllUsers":
				opts = append(opts, centrifuge.WithRefreshAllUsers(true))
			case "AnonUser":
			case "Expired":
				opts = append(opts, centrifuge.WithRefreshExpired(true))
			case "ExpireAt":
				opts = append(opts, centrifuge.WithRefreshExpireAt(expireAt))
			case "Info":
				opts = append(opts, centrifuge.WithRefreshInfo([]byte(riVal)))
			default:
				return nil, fmt.Errorf("unknown refresh option %s", o)
			}
		}
		fm := map[string]int{}
		for n, h := range conns {
			fm[n] = h.frameMark()
		}
		em, cm := A.evMark(), caller.ctrl.mark()
		if err := caller.env.Node.Refresh(user, opts...); err != nil {
			rr.Notes = append(rr.Notes, "Node.Refresh returned "+err.Error())
		}
		wire(cm)
		if has(x, "Expired") || !haveHint {
			waitClosed(conns, hint, haveHint && has(x, "Expired"))
		}
		if err := barrierAll(); err != nil {
			return nil, err
		}
		touched, perOf := w.closedEffect(rr, conns, order, byID, A, em, func(code uint32, reason string) string {
			if code == 3005 && reason == "connection expired" {
				return "expired"
			}
			return fmt.Sprintf("other:%d/%s", code, reason)
		}, "kind")
		for _, n := range touched {
			perOf[n]["expires"] = "n"
			perOf[n]["info"] = "n"
		}
		for _, n := range order {
			h := conns[n]
			if h.closed() {
				continue
			}
			var pushes []*protocol.Refresh
			for _, r := range h.framesSince(fm[n]) {
				if r.Push != nil && r.Push.Refresh != nil {
					pushes = append(pushes, r.Push.Refresh)
				}
			}
			info := string(h.c.Client.Info())
			exp := centrifuge.VerifClusterExp(h.c.Client)
			if len(pushes) == 0 {
				if info != `{"i":0}` || exp != 0 {
					rr.Notes = append(rr.Notes, fmt.Sprintf("%s got no refresh push but info=%s exp=%d", n, info, exp))
				}
				continue
			}
			touched = append(touched, n)
			p := map[string]string{"kind": "push"}
			if len(pushes) > 1 {
				p["kind"] = fmt.Sprintf("other:%d pushes", len(pushes))
			}
			r := pushes[0]
			switch {
			case !r.Expires && r.Ttl == 0:
				p["expires"] = agree(&rr.Notes, "expires", "n", yn(exp != 0))
			case r.Expires && r.Ttl >= 3590 && r.Ttl <= 3600:
				p["expires"] = agree(&rr.Notes, "expires", "y", yn(exp == expireAt))
			default:
				p["expires"] = fmt.Sprintf("other:%v/%d", r.Expires, r.Ttl)
			}
			switch info {
			case `{"i":0}`:
				p["info"] = "n"
			case riVal:
				p["info"] = "y"
			default:
				p["info"] = "other:" + info
			}
			perOf[n] = p
		}
		sort.Slice(touched, func(i, j int) bool { return strings.Index("TDEN", touched[i]) < strings.Index("TDEN", touched[j]) })
		rr.Eff.Touched = touched
		w.merge(rr, perOf, touched, []string{"kind", "expires", "info"})
	default:
		return nil, fmt.Errorf("unknown op %s", op)
	}
	return rr, nil
}

// closedEffect renders connections closed by the operation: transport close reason and OnDisconnect event must agree.
func (w *c27Worker) closedEffect(rr *runResult, conns map[string]*hconn, order []string, byID map[string]string, A *cnode, em int,
	class func(code uint32, reason string) string, comp string) ([]string, map[string]map[string]string) {
	evs := map[string][]string{}
	deadline := time.Now().Add(2 * time.Second)
	for {
		evs = map[string][]string{}
		for _, ev := range A.evSince(em) {
			if ev.Kind == "disconnect" {
				evs[byID[ev.Client]] = append(evs[byID[ev.Client]], class(ev.Code, strings.TrimPrefix(ev.Extra, "reason=")))
			}
		}
		missing := false
		for _, n := range order {
			if conns[n].closed() && len(evs[n]) == 0 {
				missing = true
			}
		}
		if !missing || time.Now().After(deadline) {
			break
		}
		time.Sleep(200 * time.Microsecond)
	}
	var touched []string
	perOf := map[string]map[string]string{}
	for _, n := range order {
		h := conns[n]
		cl, d := h.c.T.Closed()
		if !cl {
			if len(evs[n]) > 0 {
				rr.Notes = append(rr.Notes, fmt.Sprintf("%s not closed but OnDisconnect ran %v", n, evs[n]))
			}
			continue
		}
		touched = append(touched, n)
		ev := "other:no-single-event"
		if len(evs[n]) == 1 {
			ev = evs[n][0]
		}
		perOf[n] = map[string]string{comp: agree(&rr.Notes, comp, class(d.Code, d.Reason), ev)}
	}
	return touched, perOf
}

// merge folds the per-connection observations into one per-map (all touched connections must observe the same).
func (w *c27Worker) merge(rr *runResult, perOf map[string]map[string]string, touched []string, comps []string) {
	for _, k := range comps {
		if len(touched) == 0 {
			rr.Eff.Per[k] = "-"
			continue
		}
		vals := map[string]bool{}
		for _, n := range touched {
			vals[perOf[n][k]] = true
		}
		if len(vals) == 1 {
			rr.Eff.Per[k] = perOf[touched[0]][k]
		} else {
			var parts []string
			for _, n := range touched {
				parts = append(parts, n+"="+perOf[n][k])
			}
			rr.Eff.Per[k] = "mixed:" + strings.Join(parts, ",")
		}
	}
	if rr.Eff.Touched == nil {
		rr.Eff.Touched = []string{}
	}
	rr.Raw["per_conn"] = perOf
}

func sameEffect(a, b effect) bool {
	if strings.Join(a.Touched, ",") != strings.Join(b.Touched, ",") || len(a.Per) != len(b.Per) {
		return false
	}
	for k, v := range a.Per {
		if b.Per[k] != v {
			return false
		}
	}
	return true
}

func sortConns(t []string) []string {
	out := append([]string(nil), t...)
	sort.Slice(out, func(i, j int) bool { return strings.Index("TDEN", out[i]) < strings.Index("TDEN", out[j]) })
	return out
}

func diffComps(a, b effect) []string {
	var out []string
	if strings.Join(a.Touched, ",") != strings.Join(b.Touched, ",") {
		out = append(out, "touched")
	}
	for _, k := range sortedKeys(a.Per) {
		if a.Per[k] != b.Per[k] {
			out = append(out, k)
		}
	}
	return out
}

func (w *c27Worker) row(ri int, row c27Row, res *vh.Result) {
	completed := 0
	defer func() { res.Done(1, completed) }()
	row.Local.Touched = sortConns(row.Local.Touched)
	row.Reff.Touched = sortConns(row.Reff.Touched)
	sort.Strings(row.X)
	id := fmt.Sprintf("%s %v", row.Op, row.X)
	L, err := w.run(row.Op, row.X, false, row.Local.Touched, true)
	if err != nil {
		res.Drift("C27", fmt.Sprintf("%s local: %v", id, err), nil)
		return
	}
	R, err := w.run(row.Op, row.X, true, row.Reff.Touched, true)
	if err != nil {
		res.Drift("C27", fmt.Sprintf("%s remote: %v", id, err), nil)
		return
	}
	replay := map[string]any{"op": row.Op, "options": row.X, "local": L.Eff, "remote": R.Eff, "local_raw": L.Raw, "remote_raw": R.Raw, "model_wire": row.Wire}
	for _, n := range append(append([]string{}, L.Notes...), R.Notes...) {
		res.Drift("C27", fmt.Sprintf("%s: %s", id, n), replay)
	}
	// model conformance (drift, never hides the verdict below): the local effect and the wire fields are what Control.tla says
	conform := true
	if !sameEffect(L.Eff, row.Local) {
		res.Drift("C27", fmt.Sprintf("%s: real local effect %s differs from the model's %s (components %v)", id, vh.J(L.Eff), vh.J(row.Local), diffComps(L.Eff, row.Local)), replay)
		conform = false
	}
	sort.Strings(row.Wire)
	if strings.Join(L.Wire, ",") != strings.Join(row.Wire, ",") || strings.Join(R.Wire, ",") != strings.Join(row.Wire, ",") {
		res.Drift("C27", fmt.Sprintf("%s: control message carries fields %v (local call) / %v (remote call), the model says %v", id, L.Wire, R.Wire, row.Wire), replay)
		conform = false
	}
	if conform {
		completed = 1
		if len(row.X) > 0 {
			res.Distinct(id)
		}
		if ri%97 == 0 {
			res.Sample(map[string]any{"op": row.Op, "options": row.X, "wire_fields": L.Wire, "local": L.Eff, "remote": R.Eff})
		}
	}
	if sameEffect(L.Eff, R.Eff) {
		if row.Differs {
			res.Drift("C27", fmt.Sprintf("%s: the model predicts a different remote effect (%s) but the real nodes agree (%s)", id, vh.J(row.Reff), vh.J(R.Eff)), replay)
		}
		res.Count("agree", 1)
		return
	}
	res.Count("differ", 1)
	what := fmt.Sprintf("Node.%s with options %v: effect on the connections differs between the call issued on the node that holds them and the call issued on another node; differing components %v; local %s, remote %s",
		strings.ToUpper(row.Op[:1])+row.Op[1:], row.X, diffComps(L.Eff, R.Eff), vh.J(L.Eff), vh.J(R.Eff))
	report := func(culprits []string) {
		for _, c := range culprits {
			kind := "option"
			if c == "ServerTagsFilter" {
				kind = "field"
			}
			c27Violate(fmt.Sprintf("%s:%s:%s", row.Op, kind, c), len(row.X), what+fmt.Sprintf("; the remote node behaves as if %s had not been given (control message fields: %v)", c, R.Wire), replay)
		}
	}
	if row.Op == "unsubscribe" && has(row.X, "EmptyChannel") && len(R.Eff.Touched) == 0 && len(L.Eff.Touched) > 0 {
		c27Violate("unsubscribe:emptych:remote-dropped", len(row.X), what+"; Node.Unsubscribe(user, \"\") is performed on the calling node but has no effect on the connections of another node", replay)
		return
	}
	// shortcut for larger option sets (sets of up to four options always get the full attribution, which is where
	// every lost option is established): the difference is fully explained by dropping the options already
	// established as lost - nothing new to report for this row
	if K := established(row.Op, row.X); len(K) > 0 && len(row.X) > 4 {
		x2 := row.X
		for _, k := range K {
			x2 = without(x2, k)
		}
		E, err := w.run(row.Op, x2, false, nil, false)
		if err != nil {
			res.Drift("C27", fmt.Sprintf("%s explanation run without %v: %v", id, K, err), nil)
			return
		}
		if sameEffect(E.Eff, R.Eff) {
			res.Count("explained_by_established", 1)
			return
		}
	}
	// attribution on the real code
	var culprits []string
	for _, c := range row.X {
		E, err := w.run(row.Op, without(row.X, c), false, nil, false)
		if err != nil {
			res.Drift("C27", fmt.Sprintf("%s attribution run without %s: %v", id, c, err), nil)
			return
		}
		between := func(e, l, r string) bool { return e == l || e == r }
		tE, tL, tR := strings.Join(E.Eff.Touched, ","), strings.Join(L.Eff.Touched, ","), strings.Join(R.Eff.Touched, ",")
		ok := between(tE, tL, tR)
		fixed := tL != tR && tE == tR
		for k, lv := range L.Eff.Per {
			ev, rv := E.Eff.Per[k], R.Eff.Per[k]
			if !between(ev, lv, rv) {
				ok = false
			}
			if lv != rv && ev == rv {
				fixed = true
			}
		}
		if ok && fixed {
			culprits = append(culprits, c)
		}
	}
	sort.Strings(culprits)
	replay["culprits"] = culprits
	replay["model_culprits"] = row.Culprits
	if len(culprits) == 0 {
		c27Violate(fmt.Sprintf("%s:unattributed:%s", row.Op, strings.Join(diffComps(L.Eff, R.Eff), "+")), len(row.X), what+" (no single option explains it)", replay)
		return
	}
	establish(row.Op, culprits)
	report(culprits)
	sort.Strings(row.Culprits)
	if strings.Join(culprits, ",") != strings.Join(row.Culprits, ",") {
		res.Count("culprit_mismatch", 1)
		extraMu.Lock()
		res.Extra["culprit_mismatch_example"] = map[string]any{"row": id, "real": culprits, "model": row.Culprits}
		extraMu.Unlock()
	}
}

func c27(in json.RawMessage, res *vh.Result) error {
	var ci c27In
	if err := json.Unmarshal(in, &ci); err != nil {
		return err
	}
	nw := ci.Workers
	if nw <= 0 {
		nw = 4
	}
	var wg sync.WaitGroup
	jobs := make(chan int)
	var runs atomic.Int64
	for i := 0; i < nw; i++ {
		w, err := newC27Worker(i)
		if err != nil {
			return err
		}
		wg.Add(1)
		go func() {
			defer wg.Done()
			defer w.cl.close()
			for ri := range jobs {
				w.row(ri, ci.Rows[ri], res)
			}
			w.dropPool()
			runs.Add(int64(w.runs))
		}()
	}
	for ri := range ci.Rows {
		jobs <- ri
	}
	close(jobs)
	wg.Wait()
	res.Extra["runs"] = runs.Load()
	for _, sig := range sortedKeys(c27Viols) {
		v := c27Viols[sig]
		res.Violate("C27", sig, v.what, v.replay)
	}
	return nil
}
