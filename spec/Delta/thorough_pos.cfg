SPECIFICATION Spec
CONSTANTS
  MaxPub = 4
  HistSize = 2
  MaxFaults = 1
  MaxSess = 3
  Kinds = {"pos", "rec"}
  Filts = {FALSE, TRUE}
  Meds = {FALSE}
  AllowClear = TRUE
  DeltaOpts = {TRUE}
  PayKinds = {"sim"}
  AsCoded = FALSE
  Withhold = FALSE
VIEW View
INVARIANTS TypeOK C14 HeldIsLast
CHECK_DEADLOCK FALSE
