"""redisfuncs -- C33 / C34 / C35: the pure-function parts of the Redis integration (no Redis, no Lua)."""
import json
import os
import re

from lib import vf, tlaparse


# ------------------------------------------------------------------------------------------ helpers
def flat_rows(c, res, var='row'):
    """Fast reader for a `-dump` whose states are ONE variable holding a flat tuple of strings / ints /
    booleans (the table specs of this family are written that way: 10^5..10^6 rows). Strings of these
    specs contain no whitespace, quotes or backslashes, so a tuple is JSON after renaming the brackets.
    The first rows are cross-checked against the general parser lib/tlaparse.py."""
    txt = open(res['dump_file']).read()
    rows = []
    head = var + ' = <<'
    for blk in txt.split('\n\n'):
        i = blk.find(head)
        if i < 0:
            continue
        body = ' '.join(blk[i + len(head):].split())
        if not body.endswith('>>'):
            raise vf.Inconclusive('unexpected dump block: %r' % blk[:200])
        body = body[:-2].replace('TRUE', 'true').replace('FALSE', 'false').replace('<<', '[').replace('>>', ']')
        rows.append(json.loads('[' + body + ']'))
    ref = tlaparse.parse_states_file('\n\n'.join(txt.split('\n\n')[:50]))
    for a, b in zip(rows, ref):
        if a != b[var]:
            raise vf.Inconclusive('fast dump reader disagrees with lib/tlaparse: %r vs %r' % (a, b[var]))
    return rows


# ---------------------------------------------------------------------------------------------- C33
def c33(c):
    cfg = 'quick.cfg' if c.tier == 'quick' else 'thorough.cfg'
    r = c.tlc_exhaustive('PushFrame', 'PushFrame', cfg, dump=True, timeout=1500)
    rows = [x for x in flat_rows(c, r) if x[0] != 'seed']
    bad = [x for x in rows if not (x[10] and x[11])]
    if bad:
        raise vf.Inconclusive('spec-level: TLC accepted rows flagged non-canonical / not round-tripping: %r' % bad[:3])
    fams = {}
    for x in rows:
        fams[x[0] + ':' + x[1]] = fams.get(x[0] + ':' + x[1], 0) + 1
    c.log('TLC: %d table rows (Decode total, RoundTrip and Canonical hold on the grammar): %s' % (len(rows), json.dumps(fams, sort_keys=True)))
    binp = c.go_build('redisfuncs')
    res = c.harness(binp, 'pushframe', {'rows': [x[:10] for x in rows]})
    c.absorb(res)
    cnt = res['counters']
    c.log('replay: %s lenient=%s' % (json.dumps(cnt, sort_keys=True), json.dumps(res['extra'].get('lenient_accepts_by_frame_type'))))
    c.cov['traces_validated_against_impl'] = res['completed']
    c.cov['evaluations'] = res['executed']
    c.cov['distinct_nontrivial'] = res['nontrivial']
    c.cov['exhaustive'] = True
    c.cov['row_classes'] = fams
    c.cov['replay_counters'] = cnt
    c.cov['lenient_accepts_by_frame_type'] = res['extra'].get('lenient_accepts_by_frame_type')
    c.cov['rule'] = ('every row (string, Decode(string)) enumerated by TLC from spec/PushFrame/%s: all strings / all "__"+tail / "__p1:"+tail / '
                     '"__d1:"+tail / "__d1:1:x:"+tail up to the configured lengths, every Encode(x) of the bounded field tuples, and every '
                     'prefix, one-character substitution and one-character deletion of the base frames; non-trivial = distinct strings '
                     'starting with "__" (frames, rejected strings, panicking strings)' % cfg)
    c.cov['samples'] = res['samples'] or [{'input': x[2], 'class': x[1]} for x in rows if x[1] == 'frame'][:3]
    c.assumptions += [
        'the Lua encoders (broker_history_add_stream.lua / broker_history_add_list.lua) are TRANSCRIBED into Encode, not executed (no Redis / Lua here); '
        'the join / leave encoders are Go and are executed',
        'epochs contain no "_" (positioned) and no ":" (delta): epoch.Generate() yields 8 letters; offsets < 10^14 (Lua formats larger numbers with an exponent)',
        'a plain (no-history) publication payload is a protocol.Publication protobuf, which cannot start with "__" (0x5F is not a valid field tag)',
        'strings outside the grammar that the code accepts leniently (e.g. "__jxx__p", "__pXY1:e__p", trailing bytes after a delta payload) are counted, not judged: '
        'the property only demands that decoding them does not crash',
        'bounded: alphabet and lengths as in spec/PushFrame/%s' % cfg]


CHECKS = {'C33': c33}

META = {
    'C33': dict(
        level='model_checking',
        text='The frame grammar of Redis PUB/SUB payloads is written in TLA+ from the encoders (Lua scripts for positioned and delta frames, Go for join/leave, raw protobuf for plain), with Encode and a total Decode. TLC checks on the grammar that Decode(Encode(x)) = x over bounded fields (payloads containing ":" "__" and digits, epochs, empty and non-empty previous payloads), that every accepted frame re-encodes to itself, and that Decode is defined on every enumerated string. Every row (string, expected decode / plain / rejected) is replayed into the real extractPushData with recover(): a panic violates "never crashes the node", a different decode of a plain payload or well-formed frame violates the round trip.',
        note='Bounds: see spec/PushFrame/quick.cfg and thorough.cfg (exhaustive short strings over an 11-character alphabet, exhaustive tails after the frame headers, mutants of valid frames). The Lua encoders are transcribed, not executed. Trusted: TLC, the dump reader (cross-checked against lib/tlaparse.py), the harness comparison.',
        technique='TLA+ grammar (Encode / total Decode) + TLC exhaustive enumeration; function-table replay into extractPushData with recover()',
        design_ref='DESIGN.md 4.4, 8 (C33), 9, 10 item 5'),
}
