SPECIFICATION Spec
CONSTANTS Full = FALSE
INVARIANTS UpgradeProperty CloseCodeProperty TCloseProperty
CHECK_DEADLOCK FALSE
