SPECIFICATION FairSpecR
CONSTANTS
  Workers = {1, 2}
  Jobs = {1, 2}
  MaxFail = 1
  AllowClose = TRUE
  AtomicWait = TRUE
PROPERTIES StrongLiveness
CHECK_DEADLOCK FALSE
