package main

import (
	"encoding/json"
	"fmt"
	"time"

	"github.com/centrifugal/centrifuge"
	"github.com/centrifugal/protocol"

	"verifharness/cl"
	"verifharness/vh"
)

// probeMode reports which tags-filter policy the code under test applies to a subscriber that negotiated delta:
// extra["withhold"] = true when a publication excluded by the filter is not pushed. C14 holds under either policy
// (C16 decides which one is right); the family replays the behaviours of the matching reference.
func probeMode(_ json.RawMessage, res *vh.Result) error {
	env, err := cl.NewEnv(centrifuge.Config{LogLevel: centrifuge.LogLevelNone})
	if err != nil {
		return err
	}
	env.OnSubscribe = func(_ *centrifuge.Client, _ centrifuge.SubscribeEvent, cb centrifuge.SubscribeCallback) {
		cb(centrifuge.SubscribeReply{Options: centrifuge.SubscribeOptions{AllowedDeltaTypes: []centrifuge.DeltaType{centrifuge.DeltaTypeFossil}, AllowTagsFilter: true}}, nil)
	}
	if err := env.Run(); err != nil {
		return err
	}
	defer env.Close()
	conn, err := newKConn(env, "u", centrifuge.ProtocolTypeJSON)
	if err != nil {
		return err
	}
	defer conn.Cancel()
	if conn.Connect() == nil {
		return fmt.Errorf("probe: connect failed")
	}
	id := conn.NextID()
	conn.Do(&protocol.Command{Id: id, Subscribe: &protocol.SubscribeRequest{Channel: "probe", Delta: "fossil", Tf: &protocol.FilterNode{Key: "t", Cmp: "eq", Val: "keep"}}})
	if rep := conn.WaitReply(id, 3*time.Second); rep == nil || rep.Subscribe == nil {
		return fmt.Errorf("probe: subscribe failed")
	}
	for i, tag := range []string{"keep", "drop", "keep"} {
		if _, err := env.Node.Publish("probe", []byte(fmt.Sprintf(`{"probe":%d,"pad":"0123456789012345678901234567890123456789"}`, i)), centrifuge.WithTags(map[string]string{"t": tag}), centrifuge.WithDelta(true)); err != nil {
			return err
		}
	}
	conn.Barrier(3 * time.Second)
	n := 0
	for _, rep := range conn.Frames() {
		if rep.Push != nil && rep.Push.Pub != nil {
			n++
		}
	}
	switch n {
	case 3:
		res.Extra["withhold"] = false
	case 2:
		res.Extra["withhold"] = true
	default:
		return fmt.Errorf("probe: %d publications pushed, expected 2 or 3", n)
	}
	res.Done(1, 1)
	return nil
}
