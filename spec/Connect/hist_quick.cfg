SPECIFICATION Spec
CONSTANTS
  MaxTop = 3
  Limits <- LimitsQ
  Maxes = {0, 2}
  MaxConns = 3
INVARIANT C43
CHECK_DEADLOCK FALSE
