SPECIFICATION Spec
CONSTANTS MaxOps = 3
INVARIANT C11_Dict
CHECK_DEADLOCK FALSE
