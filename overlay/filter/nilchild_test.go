//go:build verif

package centrifuge

// Reproduction kept with the C15 family (NOT part of the C15 verdict, see fam/filter.py NIL_CHILD_IS_VIOLATION):
// a JSON client sends a subscribe whose tags filter has a null child, {"op":"and","nodes":[null]}, on a channel that
// allows tags filters. The JSON decoder yields a nil *FilterNode in Nodes, filter.Validate dereferences it and
// panics on the connection's read goroutine (no recover anywhere in the library): the deferred Client.close waits
// 5 s for the subscribe in progress, then the whole server process dies.
//
// Run (unchanged tree: the test binary crashes with a nil pointer dereference in filter.Validate after ~5 s;
// with a nil guard in Validate: PASS, the client gets a bad-request answer):
//
//	cd /verif && python3 -c "from lib import vf; c=vf.Check('C15'); print(c.go_test_overlay('.', 'TestVerifFilterNilChildOverWebsocket', ['filter'])[1][-3000:]); c.cleanup()"

import (
	"context"
	"net/http"
	"net/http/httptest"
	"strings"
	"testing"
	"time"

	"github.com/centrifugal/centrifuge/internal/websocket"
)

func TestVerifFilterNilChildOverWebsocket(t *testing.T) {
	n := defaultNodeNoHandlers()
	defer func() { _ = n.Shutdown(context.Background()) }()
	n.OnConnect(func(client *Client) {
		client.OnSubscribe(func(e SubscribeEvent, cb SubscribeCallback) {
			cb(SubscribeReply{Options: SubscribeOptions{AllowTagsFilter: true}}, nil)
		})
	})
	mux := http.NewServeMux()
	mux.Handle("/connection/websocket", testAuthMiddleware(NewWebsocketHandler(n, WebsocketConfig{})))
	server := httptest.NewServer(mux)
	defer server.Close()
	conn := newRealConnJSONConnect(t, "ws"+server.URL[4:], false)
	defer func() { _ = conn.Close() }()
	msg := `{"id":2,"subscribe":{"channel":"c","tf":{"op":"and","nodes":[null]}}}`
	if err := conn.WriteMessage(websocket.TextMessage, []byte(msg)); err != nil {
		t.Fatal(err)
	}
	_ = conn.SetReadDeadline(time.Now().Add(3 * time.Second))
	_, reply, err := conn.ReadMessage()
	t.Logf("answer to the malformed subscribe: %q err=%v", reply, err)
	if err != nil && strings.Contains(err.Error(), "1006") {
		t.Errorf("connection dropped without an answer (the read goroutine is unwinding a panic): %v", err)
	}
	// the panic surfaces when the deferred Client.close gives up waiting for the subscribe in progress (5 s)
	time.Sleep(6 * time.Second)
	t.Log("server process alive 6 s after the malformed subscribe")
}
