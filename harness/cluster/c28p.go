// C28, phases: replay of spec/Cluster/UnsubPhase behaviours on a two-node cluster of real nodes.
//
// A subscription is held in every phase the model names through public interfaces only: "cb" = the OnSubscribe
// callback of a client subscribe command is kept unanswered (answered later with options, or with an error for
// Refuse); "csbr" / "ssbr" = the subscribe command / Client.Subscribe runs on its own goroutine and is parked inside
// Broker.Subscribe by the cl.GateBroker hook. The unsubscribe-all (Node.Unsubscribe(user, "") on node A or B, or
// Client.Unsubscribe("") directly) runs on its own goroutine; when the model says it blocks, the harness goes on
// with the model's Release / Refuse steps and judges only when the model says the call is done: the call must have
// returned, and after a barrier on every connection Client.Channels(), hub subscriber counts, presence, the
// OnUnsubscribe callbacks, leave publications and unsubscribe pushes observed since the call started must be the
// reference's (per-channel unsubscribe semantics). Mismatch there = C28 violation, anywhere else = drift.
package main

import (
	"encoding/json"
	"fmt"
	"sort"
	"strings"
	"sync"
	"time"

	"github.com/centrifugal/centrifuge"
	"github.com/centrifugal/protocol"

	"verifharness/cl"
	"verifharness/vh"
)

const phaseWait = 3 * time.Second // below the 5 s the per-channel unsubscribe waits for a subscribe in flight

type c28pIn struct {
	Behaviours [][]map[string]any `json:"behaviours"`
	Workers    int                `json:"workers"`
}

var c28pConns = []connSpec{
	{Name: "c1", User: "u"},
	{Name: "c2", User: "u"},
	{Name: "c3", User: "v"},
}
var c28pNodeOf = map[string]int{"c1": 0, "c2": 1, "c3": 0}

type pendingCB struct {
	cb   centrifuge.SubscribeCallback
	opts centrifuge.SubscribeOptions
}

type c28pWorker struct {
	cl *cluster
	mu sync.Mutex
	// per real channel: hold the OnSubscribe callback / park Broker.Subscribe
	holdCB map[string]bool
	cbs    map[string]*pendingCB // key: client id + "|" + channel
	gates  map[string]*cl.Gate   // key: node name + "|" + channel
}

func optsFor(ch string) centrifuge.SubscribeOptions {
	m := modelChan(ch)
	return centrifuge.SubscribeOptions{EmitPresence: m == "a", EmitJoinLeave: m == "a"}
}

func newC28pWorker() (*c28pWorker, error) {
	w := &c28pWorker{holdCB: map[string]bool{}, cbs: map[string]*pendingCB{}, gates: map[string]*cl.Gate{}}
	c, err := newCluster(2, true, func(_ int, nd *cnode) {
		nd.env.OnSubscribe = func(c *centrifuge.Client, e centrifuge.SubscribeEvent, cb centrifuge.SubscribeCallback) {
			w.mu.Lock()
			hold := w.holdCB[e.Channel]
			if hold {
				w.cbs[c.ID()+"|"+e.Channel] = &pendingCB{cb, optsFor(e.Channel)}
				delete(w.holdCB, e.Channel)
			}
			w.mu.Unlock()
			if !hold {
				cb(centrifuge.SubscribeReply{Options: optsFor(e.Channel)}, nil)
			}
		}
		name := nd.name
		nd.gb.OnSubscribe = func(ch string) {
			w.mu.Lock()
			g := w.gates[name+"|"+ch]
			w.mu.Unlock()
			if g != nil {
				g.Arrive(phaseWait + time.Second)
			}
		}
	})
	if err != nil {
		return nil, err
	}
	w.cl = c
	return w, nil
}

type inflight struct {
	phase string
	id    uint32        // command id (client-side)
	done  chan struct{} // the goroutine running the command / Client.Subscribe
	gate  *cl.Gate
	err   error
}

func (w *c28pWorker) run(bi int, beh []map[string]any, res *vh.Result) {
	suffix := fmt.Sprintf("_%d_%d", vh.Seed(), bi)
	real := func(x string) string { return x + suffix }
	userOf := func(u string) string { return u + suffix }
	conns := map[string]*hconn{}
	order := []string{"c1", "c2", "c3"}
	var steps []any
	completed := 1
	nontrivial := false
	fl := map[string]*inflight{} // key conn|x
	var callDone chan error
	defer func() {
		// let go of everything that is still held
		for _, f := range fl {
			if f.gate != nil {
				f.gate.Release()
			}
		}
		w.mu.Lock()
		for k, p := range w.cbs {
			go p.cb(centrifuge.SubscribeReply{}, centrifuge.ErrorPermissionDenied)
			delete(w.cbs, k)
		}
		w.gates = map[string]*cl.Gate{}
		w.holdCB = map[string]bool{}
		w.mu.Unlock()
		for _, f := range fl {
			if f.done != nil {
				select {
				case <-f.done:
				case <-time.After(phaseWait):
				}
			}
		}
		if callDone != nil {
			select {
			case <-callDone:
			case <-time.After(2 * phaseWait):
			}
		}
		for _, h := range conns {
			h.drop()
		}
		deadline := time.Now().Add(3 * time.Second)
		for _, nd := range w.cl.nodes {
			for nd.env.Node.Hub().NumClients() > 0 && time.Now().Before(deadline) {
				time.Sleep(200 * time.Microsecond)
			}
		}
		if completed == 1 && nontrivial {
			res.Distinct(vh.J(steps))
		}
		res.Done(1, completed)
	}()
	drift := func(what string) {
		res.Drift("C28", fmt.Sprintf("%s (phase behaviour %d)", what, bi), map[string]any{"steps": steps})
		completed = 0
	}
	for _, sp := range c28pConns {
		s := sp
		s.User = userOf(sp.User)
		h, err := w.cl.nodes[c28pNodeOf[sp.Name]].connect(s)
		if err != nil {
			drift("connect: " + err.Error())
			return
		}
		conns[sp.Name] = h
	}
	byID := map[string]string{}
	for name, h := range conns {
		byID[h.id] = name
	}
	chans := []string{"a", "b"}
	readerBusy := func(st map[string]any, c string) bool {
		for _, x := range chans {
			if vh.Str(vh.Map(vh.Map(st["ph"])[c])[x]) == "csbr" {
				return true
			}
		}
		return false
	}
	// marks of the effects window
	var fm map[string]int
	var evMark, jlMark []int
	mark := func() {
		fm = map[string]int{}
		for name, h := range conns {
			fm[name] = h.frameMark()
		}
		evMark = []int{w.cl.nodes[0].evMark(), w.cl.nodes[1].evMark()}
		jlMark = []int{w.cl.nodes[0].jlMark(), w.cl.nodes[1].jlMark()}
	}
	startSub := func(c, x, p string) *inflight {
		h := conns[c]
		f := &inflight{phase: p}
		if p == "csbr" || p == "ssbr" {
			f.gate = cl.NewGate()
			w.mu.Lock()
			w.gates[h.node.name+"|"+real(x)] = f.gate
			w.mu.Unlock()
		}
		switch p {
		case "cb":
			w.mu.Lock()
			w.holdCB[real(x)] = true
			w.mu.Unlock()
			f.id = h.c.NextID()
			h.c.Do(&protocol.Command{Id: f.id, Subscribe: &protocol.SubscribeRequest{Channel: real(x)}})
		case "csbr":
			f.id = h.c.NextID()
			f.done = make(chan struct{})
			go func() {
				defer close(f.done)
				h.c.Do(&protocol.Command{Id: f.id, Subscribe: &protocol.SubscribeRequest{Channel: real(x)}})
			}()
		case "ssbr":
			f.done = make(chan struct{})
			go func() {
				defer close(f.done)
				o := optsFor(real(x))
				f.err = h.c.Client.Subscribe(real(x), centrifuge.WithEmitPresence(o.EmitPresence), centrifuge.WithEmitJoinLeave(o.EmitJoinLeave))
			}()
		}
		return f
	}

	for si := 1; si < len(beh); si++ {
		st := beh[si]
		step := vh.Map(st["step"])
		act := vh.Str(step["act"])
		steps = append(steps, step)
		pending := vh.Bool(vh.Map(st["call"])["on"])
		wasPending := vh.Bool(vh.Map(beh[si-1]["call"])["on"])
		if !wasPending {
			mark()
		}
		judge := false
		switch act {
		case "Subscribe":
			c, x, k := vh.Str(step["c"]), vh.Str(step["ch"]), vh.Str(step["k"])
			h := conns[c]
			if k == "cs" {
				id := h.c.NextID()
				h.c.Do(&protocol.Command{Id: id, Subscribe: &protocol.SubscribeRequest{Channel: real(x)}})
				if r := h.c.WaitReply(id, phaseWait); r == nil || r.Subscribe == nil {
					drift(fmt.Sprintf("client-side subscribe of %s to %s failed", c, x))
					return
				}
			} else {
				o := optsFor(real(x))
				if err := h.c.Client.Subscribe(real(x), centrifuge.WithEmitPresence(o.EmitPresence), centrifuge.WithEmitJoinLeave(o.EmitJoinLeave)); err != nil {
					drift(fmt.Sprintf("Client.Subscribe of %s to %s: %v", c, x, err))
					return
				}
			}
		case "SubBegin":
			c, x, p := vh.Str(step["c"]), vh.Str(step["ch"]), vh.Str(step["p"])
			f := startSub(c, x, p)
			fl[c+"|"+x] = f
			if f.gate != nil {
				if !f.gate.WaitArrived(phaseWait) {
					drift(fmt.Sprintf("subscribe of %s to %s did not reach Broker.Subscribe", c, x))
					return
				}
			} else {
				w.mu.Lock()
				_, held := w.cbs[conns[c].id+"|"+real(x)]
				w.mu.Unlock()
				if !held {
					drift(fmt.Sprintf("OnSubscribe of %s for %s was not called", c, x))
					return
				}
			}
		case "Release", "Refuse":
			c, x := vh.Str(step["c"]), vh.Str(step["ch"])
			f := fl[c+"|"+x]
			if f == nil {
				drift("nothing in flight for " + c + "|" + x)
				return
			}
			delete(fl, c+"|"+x)
			h := conns[c]
			if f.phase == "cb" {
				w.mu.Lock()
				p := w.cbs[h.id+"|"+real(x)]
				delete(w.cbs, h.id+"|"+real(x))
				w.mu.Unlock()
				if act == "Refuse" {
					p.cb(centrifuge.SubscribeReply{}, centrifuge.ErrorPermissionDenied)
				} else {
					p.cb(centrifuge.SubscribeReply{Options: p.opts}, nil)
				}
				if r := h.c.WaitReply(f.id, phaseWait); r == nil {
					drift(fmt.Sprintf("no reply for the subscribe of %s to %s after the callback was answered", c, x))
					return
				}
			} else {
				w.mu.Lock()
				delete(w.gates, h.node.name+"|"+real(x))
				w.mu.Unlock()
				f.gate.Release()
				select {
				case <-f.done:
				case <-time.After(phaseWait):
					drift(fmt.Sprintf("parked subscribe of %s to %s did not finish after release", c, x))
					return
				}
				if f.phase == "ssbr" && f.err != nil {
					drift(fmt.Sprintf("Client.Subscribe of %s to %s returned %v", c, x, f.err))
					return
				}
			}
		case "UnsubAllStart", "UnsubAllDone":
			if !wasPending {
				// the call starts in this step
				var opts []centrifuge.UnsubscribeOption
				unsub := centrifuge.Unsubscribe{Code: 2000, Reason: "server unsubscribe"}
				if vh.Bool(step["custom"]) {
					unsub = centrifuge.Unsubscribe{Code: 2600, Reason: "custom"}
					opts = append(opts, centrifuge.WithCustomUnsubscribe(unsub))
				}
				done := make(chan error, 1)
				callDone = done
				origin := vh.Str(step["origin"])
				go func() {
					switch origin {
					case "direct":
						conns[vh.Str(step["target"])].c.Client.Unsubscribe("", unsub)
						done <- nil
					case "A":
						done <- w.cl.nodes[0].env.Node.Unsubscribe(userOf(vh.Str(step["user"])), "", opts...)
					default:
						done <- w.cl.nodes[1].env.Node.Unsubscribe(userOf(vh.Str(step["user"])), "", opts...)
					}
				}()
				if act == "UnsubAllStart" {
					// give the call time to take its snapshot of the connections' channels
					time.Sleep(3 * time.Millisecond)
				}
			}
			if act == "UnsubAllDone" {
				select {
				case err := <-callDone:
					if err != nil {
						drift("unsubscribe-all returned " + err.Error())
						return
					}
				case <-time.After(phaseWait):
					res.Violate("C28", "emptych:call-does-not-return", fmt.Sprintf("the unsubscribe-all did not return within %v although no subscribe of its connections is in flight any more (phase behaviour %d, schedule %s)", phaseWait, bi, phaseSchedule(steps)), map[string]any{"steps": steps})
					completed = 0
					return
				}
				callDone = nil
				judge = true
			}
		default:
			drift("unknown action " + act)
			return
		}
		if pending {
			continue // the call is blocked: nothing is compared until the model says it is done
		}
		for _, name := range order {
			if readerBusy(st, name) {
				continue
			}
			if !conns[name].c.Barrier(phaseWait) {
				drift(fmt.Sprintf("barrier on %s failed after %s", name, act))
				return
			}
		}
		// ---------------------------------------------------------------- observe
		var mm []c28Mismatch
		mph := vh.Map(st["ph"])
		for _, name := range order {
			var want, got []string
			for _, x := range chans {
				if p := vh.Str(vh.Map(mph[name])[x]); p == "cs" || p == "ss" {
					want = append(want, x)
				}
			}
			for _, rc := range conns[name].channels() {
				got = append(got, modelChan(rc))
			}
			sort.Strings(got)
			if strings.Join(want, ",") != strings.Join(got, ",") {
				mm = append(mm, c28Mismatch{"channels", name, fmt.Sprintf("Channels() of %s = %v, expected %v", name, got, want)})
			}
		}
		hubWant := map[string]int{}
		for _, p := range vh.List(st["hub"]) {
			l := vh.List(p)
			hubWant[fmt.Sprintf("%s@%d", vh.Str(l[0]), c28pNodeOf[vh.Str(l[1])])]++
		}
		var gotPres []string
		for ni, nd := range w.cl.nodes {
			for _, x := range chans {
				if n := nd.env.Node.Hub().NumSubscribers(real(x)); n != hubWant[fmt.Sprintf("%s@%d", x, ni)] {
					mm = append(mm, c28Mismatch{"hub", "", fmt.Sprintf("node %s has %d subscribers of %s, expected %d", nd.name, n, x, hubWant[fmt.Sprintf("%s@%d", x, ni)])})
				}
				pr, err := nd.env.Node.Presence(real(x))
				if err != nil {
					drift("presence: " + err.Error())
					return
				}
				for id := range pr.Presence {
					gotPres = append(gotPres, pairKey(x, byID[id]))
				}
			}
		}
		if miss, extra := diffLists(modelPairs(st["pres"]), gotPres); len(miss)+len(extra) > 0 {
			mm = append(mm, c28Mismatch{"presence", "", fmt.Sprintf("presence entries missing %v, unexpected %v", miss, extra)})
		}
		if judge {
			code := 2000
			if vh.Bool(step["custom"]) {
				code = 2600
			}
			ss := map[string]bool{}
			for _, p := range modelPairs(step["cbss"]) {
				ss[p] = true
			}
			refused := map[string]bool{}
			for _, p := range modelPairs(step["refused"]) {
				refused[p] = true
			}
			var wantCb, wantPush, gotCb, gotLeave, gotPush []string
			for _, p := range modelPairs(step["cbs"]) {
				wantCb = append(wantCb, fmt.Sprintf("%s code=%d server_side=%v", p, code, ss[p]))
			}
			for _, p := range modelPairs(step["pushes"]) {
				wantPush = append(wantPush, fmt.Sprintf("%s code=%d", p, code))
			}
			for ni, nd := range w.cl.nodes {
				for _, ev := range nd.evSince(evMark[ni]) {
					if name, ok := byID[ev.Client]; ok && ev.Kind == "unsubscribe" {
						gotCb = append(gotCb, fmt.Sprintf("%s code=%d server_side=%v", pairKey(modelChan(ev.Ch), name), ev.Code, strings.Contains(ev.Extra, "server_side=true")))
					}
				}
				for _, e := range nd.jlSince(jlMark[ni]) {
					if name, ok := byID[e.Client]; ok && e.Kind == "leave" && strings.HasSuffix(e.Ch, suffix) {
						gotLeave = append(gotLeave, pairKey(modelChan(e.Ch), name))
					}
				}
			}
			for _, name := range order {
				for _, r := range conns[name].framesSince(fm[name]) {
					if r.Push != nil && r.Push.Unsubscribe != nil {
						gotPush = append(gotPush, fmt.Sprintf("%s code=%d", pairKey(modelChan(r.Push.Channel), name), r.Push.Unsubscribe.Code))
					}
				}
			}
			cmp := func(aspect string, want, got []string, optional map[string]bool) {
				miss, extra := diffLists(want, got)
				for _, e := range miss {
					if optional != nil && optional[strings.SplitN(e, " ", 2)[0]] {
						continue // a refused subscribe may have been refused before the call took its snapshot
					}
					mm = append(mm, c28Mismatch{aspect, "", fmt.Sprintf("%s %q expected, not observed", aspect, e)})
				}
				for _, e := range extra {
					mm = append(mm, c28Mismatch{aspect, "", fmt.Sprintf("%s %q observed, not expected", aspect, e)})
				}
			}
			cmp("callback", wantCb, gotCb, nil)
			cmp("leave", modelPairs(step["leaves"]), gotLeave, nil)
			cmp("push", wantPush, gotPush, refused)
			waited := vh.Bool(step["waited"])
			if len(mm) == 0 {
				if waited {
					nontrivial = true
					res.Count("waited_calls", 1)
				}
				res.Count("judged_calls", 1)
				continue
			}
			var phases []string
			for _, p := range vh.List(step["snap"]) {
				l := vh.List(p)
				phases = append(phases, fmt.Sprintf("%s@%s:%s", vh.Str(l[0]), vh.Str(l[1]), vh.Str(vh.Map(vh.Map(step["pre"])[vh.Str(l[1])])[vh.Str(l[0])])))
			}
			sort.Strings(phases)
			origin := vh.Str(step["origin"])
			for _, m := range mm {
				sig := fmt.Sprintf("emptych:selected:%s:%s", m.aspect, map[string]string{"A": "node", "B": "node", "direct": "direct"}[origin])
				if waited {
					sig += ":in-progress"
				}
				res.Violate("C28", sig, fmt.Sprintf("unsubscribe-all (origin %s, user %q, target %q) arriving while the subscriptions were %v: after everything was released and the call returned: %s (phase behaviour %d, schedule %s)",
					origin, vh.Str(step["user"]), vh.Str(step["target"]), phases, m.what, bi, phaseSchedule(steps)), map[string]any{"steps": steps, "mismatches": mmStrings(mm)})
			}
			completed = 0
			return
		}
		if len(mm) > 0 {
			drift(fmt.Sprintf("after %s %s: %v", act, vh.J(step), mmStrings(mm)))
			return
		}
	}
	if bi < 2 {
		res.Sample(map[string]any{"schedule": phaseSchedule(steps)})
	}
}

func phaseSchedule(steps []any) string {
	var out []string
	for _, s := range steps {
		m := vh.Map(s)
		switch a := vh.Str(m["act"]); a {
		case "Subscribe":
			out = append(out, fmt.Sprintf("Subscribe(%s,%s,%s)", vh.Str(m["c"]), vh.Str(m["ch"]), vh.Str(m["k"])))
		case "SubBegin", "Release":
			out = append(out, fmt.Sprintf("%s(%s,%s,%s)", a, vh.Str(m["c"]), vh.Str(m["ch"]), vh.Str(m["p"])))
		case "Refuse":
			out = append(out, fmt.Sprintf("Refuse(%s,%s)", vh.Str(m["c"]), vh.Str(m["ch"])))
		default:
			out = append(out, fmt.Sprintf("%s(%s,%s%s)", a, vh.Str(m["origin"]), vh.Str(m["user"]), vh.Str(m["target"])))
		}
	}
	return strings.Join(out, "; ")
}

func c28p(in json.RawMessage, res *vh.Result) error {
	var ci c28pIn
	if err := json.Unmarshal(in, &ci); err != nil {
		return err
	}
	nw := ci.Workers
	if nw <= 0 {
		nw = 4
	}
	var wg sync.WaitGroup
	jobs := make(chan int)
	for i := 0; i < nw; i++ {
		w, err := newC28pWorker()
		if err != nil {
			return err
		}
		wg.Add(1)
		go func() {
			defer wg.Done()
			defer w.cl.close()
			for bi := range jobs {
				w.run(bi, ci.Behaviours[bi], res)
			}
		}()
	}
	for bi := range ci.Behaviours {
		jobs <- bi
	}
	close(jobs)
	wg.Wait()
	return nil
}
