----------------------------- MODULE PushFrame -----------------------------
(* C33  Redis PUB/SUB payload framing round-trips and parsing is total.

   Strings are sequences of one-character strings.  The GRAMMAR below is read
   off the encoders, not off the decoder:

     internal/redis_lua/broker_history_add_stream.lua  (lines "payload = ...")
     internal/redis_lua/broker_history_add_list.lua
        positioned   "__" .. "p1:" .. top_offset .. ":" .. current_epoch .. "__" .. message_payload
        delta        "__" .. "d1:" .. top_offset .. ":" .. current_epoch .. ":" .. #prev .. ":" .. prev
                          .. ":" .. #message_payload .. ":" .. message_payload
     broker_redis.go publishJoin / publishLeave
        join         append(joinTypePrefix  = "__j__", clientInfoProtobuf...)
        leave        append(leaveTypePrefix = "__l__", clientInfoProtobuf...)
     broker_redis.go publish, no-history branch
        plain        the Publication protobuf itself (PUBLISH ch <bytes>); a protobuf of
                     protocol.Publication never starts with "__" (0x5F is not a valid
                     field tag: wire type 7), so "plain" == "does not start with __".

     frame  ::= "__j__" payload | "__l__" payload
              | "__p1:" nat ":" pepoch "__" payload
              | "__d1:" nat ":" depoch ":" nat ":" prev ":" nat ":" payload
                                      with the two nats the byte lengths of prev / payload
     nat    ::= "0" | [1-9][0-9]*        (Lua's  number .. string  of an integer < 10^14)
     pepoch ::= (char \ "_")*            (terminated by the first "__"; epoch.Generate() yields letters)
     depoch ::= (char \ ":")*            (terminated by the next ":")

   Decode is the TOTAL function of that grammar: every string is either
   "plain" (no "__" prefix: ok, the whole string is the payload), a frame
   (ok with its fields), or rejected (ok = FALSE; the Go caller
   handleRedisClientMessage returns the error "malformed PUB/SUB data" and
   the message is dropped - it must not crash the node).

   TLC checks: Decode is defined (no evaluation error) on every enumerated
   string; Decode(Encode(x)) = x (RoundTrip); every accepted frame is
   canonical, Encode(fields(Decode(s))) = s (Canonical).  The rows
   (s, Decode(s)) are the function table replayed into the real
   extractPushData by harness/redisfuncs mode `pushframe`.                 *)
EXTENDS Integers, Sequences, FiniteSets

CONSTANTS Alphabet, MaxAll, MaxTail,            \* exhaustive strings / "__" ++ exhaustive tails
          TailChars, MaxPTail, MaxDTail, MaxD2Tail, \* "__p1:" / "__d1:" / "__d1:1:x:" ++ exhaustive tails
          MaxD3Tail,                            \* "__d1:1:x:0::" and "__d1:1:x:1:x:" ++ exhaustive tails (second length field)
          PayChars, MaxPay, MaxDeltaPay,        \* round-trip domain: payload / prev alphabets and lengths
          EpochChars, MaxEpoch, Offs,
          MaxBasePay, BaseOffs, SubstChars      \* base frames for prefixes / substitutions / deletions

---------------------------------------------------------------------------
(* --- characters and numbers -------------------------------------------- *)
DigitSeq == <<"0", "1", "2", "3", "4", "5", "6", "7", "8", "9">>
DigitSet == {DigitSeq[i] : i \in 1..10}
DigitVal(c) == (CHOOSE i \in 1..10 : DigitSeq[i] = c) - 1

RECURSIVE Dec(_)
Dec(n) == IF n < 10 THEN <<DigitSeq[n + 1]>> ELSE Dec(n \div 10) \o <<DigitSeq[(n % 10) + 1]>>

RECURSIVE NatVal(_, _)
NatVal(d, acc) == IF d = <<>> THEN acc ELSE NatVal(Tail(d), acc * 10 + DigitVal(Head(d)))

CanonNat(d) == Len(d) >= 1 /\ (Len(d) = 1 \/ d[1] # "0")

Drop(q, n) == SubSeq(q, n + 1, Len(q))
Take(q, n) == SubSeq(q, 1, n)
StartsWith(q, p) == Len(q) >= Len(p) /\ Take(q, Len(p)) = p

\* number of leading digits of q / of leading characters different from ch (i = 1 at the call)
RECURSIVE LeadDigits(_, _)
LeadDigits(q, i) == IF i > Len(q) \/ q[i] \notin DigitSet THEN i - 1 ELSE LeadDigits(q, i + 1)
RECURSIVE LeadNot(_, _, _)
LeadNot(q, ch, i) == IF i > Len(q) \/ q[i] = ch THEN i - 1 ELSE LeadNot(q, ch, i + 1)

RECURSIVE Str(_)
Str(q) == IF q = <<>> THEN "" ELSE Head(q) \o Str(Tail(q))

---------------------------------------------------------------------------
(* --- the encoders (transcribed from Lua / Go) --------------------------- *)
US == <<"_", "_">>
C(x) == <<x>>

Encode(kind, off, epoch, payload, prev) ==
  CASE kind = "plain" -> payload
    [] kind = "join"  -> US \o C("j") \o US \o payload
    [] kind = "leave" -> US \o C("l") \o US \o payload
    [] kind = "pos"   -> US \o <<"p", "1", ":">> \o Dec(off) \o C(":") \o epoch \o US \o payload
    [] kind = "delta" -> US \o <<"d", "1", ":">> \o Dec(off) \o C(":") \o epoch \o C(":")
                            \o Dec(Len(prev)) \o C(":") \o prev \o C(":")
                            \o Dec(Len(payload)) \o C(":") \o payload

---------------------------------------------------------------------------
(* --- the decoder, from the grammar (total) ------------------------------ *)
Bad == [ok |-> FALSE, kind |-> "none", off |-> 0, epoch |-> <<>>, delta |-> FALSE,
        payload |-> <<>>, prev |-> <<>>]
Good(k, o, e, d, p, pv) == [ok |-> TRUE, kind |-> k, off |-> o, epoch |-> e, delta |-> d,
                            payload |-> p, prev |-> pv]

\* nat ":" at the head of t:  [ok, val, rest]
NatColon(t) ==
  LET n == LeadDigits(t, 1)
      d == Take(t, n)
  IN IF CanonNat(d) /\ Len(t) > n /\ t[n + 1] = ":"
       THEN [ok |-> TRUE, val |-> NatVal(d, 0), rest |-> Drop(t, n + 1)]
       ELSE [ok |-> FALSE, val |-> 0, rest |-> <<>>]

ParsePos(t) ==              \* t = what follows "__p1:"
  LET a == NatColon(t) IN
  IF ~a.ok THEN Bad
  ELSE LET e == a.rest
           k == LeadNot(e, "_", 1)           \* pepoch = e[1..k]
       IN IF Len(e) >= k + 2 /\ e[k + 1] = "_" /\ e[k + 2] = "_"
            THEN Good("pub", a.val, Take(e, k), FALSE, Drop(e, k + 2), <<>>)
            ELSE Bad

ParseDelta(t) ==            \* t = what follows "__d1:"
  LET a == NatColon(t) IN
  IF ~a.ok THEN Bad
  ELSE LET e == a.rest
           k == LeadNot(e, ":", 1)           \* depoch = e[1..k]
       IN IF Len(e) < k + 1 THEN Bad                         \* no ":" after the epoch
          ELSE LET l1 == NatColon(Drop(e, k + 1)) IN
               IF ~l1.ok \/ Len(l1.rest) < l1.val + 1 \/ l1.rest[l1.val + 1] # ":" THEN Bad
               ELSE LET pv == Take(l1.rest, l1.val)
                        l2 == NatColon(Drop(l1.rest, l1.val + 1))
                    IN IF ~l2.ok \/ Len(l2.rest) # l2.val THEN Bad
                       ELSE Good("pub", a.val, Take(e, k), TRUE, l2.rest, pv)

Decode(q) ==
  IF ~StartsWith(q, US) THEN Good("pub", 0, <<>>, FALSE, q, <<>>)          \* plain
  ELSE IF StartsWith(q, <<"_", "_", "j", "_", "_">>) THEN Good("join", 0, <<>>, FALSE, Drop(q, 5), <<>>)
  ELSE IF StartsWith(q, <<"_", "_", "l", "_", "_">>) THEN Good("leave", 0, <<>>, FALSE, Drop(q, 5), <<>>)
  ELSE IF StartsWith(q, <<"_", "_", "p", "1", ":">>) THEN ParsePos(Drop(q, 5))
  ELSE IF StartsWith(q, <<"_", "_", "d", "1", ":">>) THEN ParseDelta(Drop(q, 5))
  ELSE Bad

Class(q) == IF ~StartsWith(q, US) THEN "plain" ELSE IF Decode(q).ok THEN "frame" ELSE "reject"

\* Re-encoding of an accepted frame gives the same string (the grammar is unambiguous and Decode
\* accepts nothing the encoders cannot produce).
ReEncode(r) ==
  IF r.kind = "join" THEN Encode("join", 0, <<>>, r.payload, <<>>)
  ELSE IF r.kind = "leave" THEN Encode("leave", 0, <<>>, r.payload, <<>>)
  ELSE IF r.delta THEN Encode("delta", r.off, r.epoch, r.payload, r.prev)
  ELSE Encode("pos", r.off, r.epoch, r.payload, <<>>)

Render(r) == [ok |-> r.ok, kind |-> r.kind, off |-> r.off, epoch |-> Str(r.epoch), delta |-> r.delta,
              payload |-> Str(r.payload), prev |-> Str(r.prev)]

---------------------------------------------------------------------------
(* --- input families ----------------------------------------------------- *)
\* The table is generated as SUCCESSORS of a few dozen seed states (family, first character / frame
\* kind, offset) so that TLC's workers enumerate the families in parallel (initial states are computed
\* by one thread).  All enumerations are nested quantifiers  \E m \in 0..n : \E q \in [1..m -> A]
\* (lazy; a UNION of function sets would be normalised by TLC first, an order of magnitude slower).
Enc(x) == Encode(x.kind, x.off, x.epoch, x.payload, x.prev)
X(k, o, e, p, pv) == [kind |-> k, off |-> o, epoch |-> e, payload |-> p, prev |-> pv]

Expected(x) ==
  CASE x.kind = "plain" -> Good("pub", 0, <<>>, FALSE, x.payload, <<>>)
    [] x.kind = "join"  -> Good("join", 0, <<>>, FALSE, x.payload, <<>>)
    [] x.kind = "leave" -> Good("leave", 0, <<>>, FALSE, x.payload, <<>>)
    [] x.kind = "pos"   -> Good("pub", x.off, x.epoch, FALSE, x.payload, <<>>)
    [] x.kind = "delta" -> Good("pub", x.off, x.epoch, TRUE, x.payload, x.prev)

\* "some field tuple x of kind k and offset o satisfies P": payload/prev over PayChars with lengths
\* <= mp (delta: <= mdp), epochs of length <= me (a positioned frame may carry ':' in the epoch)
SomeField(P(_), k, o, mp, mdp, me) ==
  IF k = "delta"
    THEN \E n \in 0..mdp : \E p \in [1..n -> PayChars] : \E n2 \in 0..mdp : \E pv \in [1..n2 -> PayChars] :
           \E j \in 0..me : \E e \in [1..j -> EpochChars] : P(X("delta", o, e, p, pv))
  ELSE IF k = "pos"
    THEN \E n \in 0..mp : \E p \in [1..n -> PayChars] :
           \E j \in 0..me : \E e \in [1..j -> EpochChars \cup {":"}] : P(X("pos", o, e, p, <<>>))
  ELSE \E n \in 0..mp : \E p \in [1..n -> PayChars] : (k = "plain" => ~StartsWith(p, US)) /\ P(X(k, 0, <<>>, p, <<>>))

\* "some string pre \o c \o t with t over A, Len(c \o t) <= n, satisfies P"  (c = "" : pre alone)
SomeTail(P(_), pre, c, A, n) ==
  IF c = "" THEN P(pre) ELSE \E m \in 0..(n - 1) : \E t \in [1..m -> A] : P(pre \o <<c>> \o t)

\* one row of the function table, flat so that the dump is one short line per row:
\*   <<family, class, s, ok, kind, off, epoch, delta, payload, prev, canonical, roundtrip>>
VARIABLE row
vars == <<row>>

MkRow(tag, q, rt) ==
  LET r == Decode(q) IN
  <<tag, Class(q), Str(q), r.ok, r.kind, r.off, Str(r.epoch), r.delta, Str(r.payload), Str(r.prev),
    (StartsWith(q, US) /\ r.ok) => ReEncode(r) = q, rt>>

P1 == <<"_", "_", "p", "1", ":">>
D1 == <<"_", "_", "d", "1", ":">>
D1X == <<"_", "_", "d", "1", ":", "1", ":", "x", ":">>
D1Y == D1X \o <<"0", ":", ":">>                 \* empty previous payload consumed: the payload length follows
D1Z == D1X \o <<"1", ":", "x", ":">>            \* one-byte previous payload consumed
Kinds == {"plain", "join", "leave", "pos", "delta"}

Seeds ==
       {<<"seed", "all", c, 0>> : c \in Alphabet \cup {""}}
  \cup {<<"seed", "us", c, 0>> : c \in Alphabet}
  \cup {<<"seed", f, c, 0>> : f \in {"p1", "d1"}, c \in TailChars \cup {""}}
  \cup {<<"seed", f, c, 0>> : f \in {"d1x", "d1y", "d1z"}, c \in (TailChars \ {"_"}) \cup {""}}
  \cup {<<"seed", "enc", k, o>> : k \in Kinds, o \in Offs}
  \cup {<<"seed", f, k, o>> : f \in {"prefix", "subst", "del"}, k \in Kinds, o \in BaseOffs}

Init == row \in Seeds

Expand ==
  /\ row[1] = "seed"
  /\ LET f == row[2]  c == row[3]  o == row[4] IN
     CASE f = "all" -> SomeTail(LAMBDA q : row' = MkRow(f, q, TRUE), <<>>, c, Alphabet, MaxAll)
       [] f = "us"  -> SomeTail(LAMBDA q : row' = MkRow(f, q, TRUE), US, c, Alphabet, MaxTail)
       [] f = "p1"  -> SomeTail(LAMBDA q : row' = MkRow(f, q, TRUE), P1, c, TailChars, MaxPTail)
       [] f = "d1"  -> SomeTail(LAMBDA q : row' = MkRow(f, q, TRUE), D1, c, TailChars, MaxDTail)
       [] f = "d1x" -> SomeTail(LAMBDA q : row' = MkRow(f, q, TRUE), D1X, c, TailChars \ {"_"}, MaxD2Tail)
       [] f = "d1y" -> SomeTail(LAMBDA q : row' = MkRow(f, q, TRUE), D1Y, c, TailChars \ {"_"}, MaxD3Tail)
       [] f = "d1z" -> SomeTail(LAMBDA q : row' = MkRow(f, q, TRUE), D1Z, c, TailChars \ {"_"}, MaxD3Tail)
       [] f = "enc" -> SomeField(LAMBDA x : row' = MkRow(f, Enc(x), Decode(Enc(x)) = Expected(x)),
                                 c, o, MaxPay, MaxDeltaPay, MaxEpoch)
       [] f = "prefix" -> SomeField(LAMBDA x : \E n \in 0..Len(Enc(x)) : row' = MkRow(f, Take(Enc(x), n), TRUE),
                                    c, o, MaxBasePay, MaxBasePay, 1)
       [] f = "subst"  -> SomeField(LAMBDA x : \E i \in 1..Len(Enc(x)) : \E ch \in SubstChars :
                                       row' = MkRow(f, [Enc(x) EXCEPT ![i] = ch], TRUE),
                                    c, o, MaxBasePay, MaxBasePay, 1)
       [] f = "del"    -> SomeField(LAMBDA x : \E i \in 1..Len(Enc(x)) :
                                       row' = MkRow(f, Take(Enc(x), i - 1) \o Drop(Enc(x), i), TRUE),
                                    c, o, MaxBasePay, MaxBasePay, 1)

Next == Expand
Spec == Init /\ [][Next]_vars

---------------------------------------------------------------------------
(* --- properties of the grammar (the design half), per row --------------- *)
IsRow == row[1] # "seed"
\* Decode(Encode(x)) = x for every field tuple of the "enc" family
RoundTrip == IsRow => row[12]
\* The grammar is unambiguous and Decode accepts nothing the encoders cannot produce: every accepted
\* "__..." string re-encodes to itself
Canonical == IsRow => row[11]
\* the decoder was defined on the string (TLC raises an evaluation error otherwise) and the row is
\* well-formed
Total == IsRow =>
         /\ row[2] \in {"plain", "frame", "reject"}
         /\ row[4] \in BOOLEAN /\ row[8] \in BOOLEAN /\ row[6] \in Nat
         /\ (row[2] = "reject") = ~row[4]
         /\ row[5] \in (IF row[4] THEN {"pub", "join", "leave"} ELSE {"none"})
         /\ row[2] = "plain" => row[9] = row[3] /\ row[5] = "pub" /\ ~row[8] /\ row[6] = 0
=============================================================================
