SPECIFICATION Spec
CONSTANTS MaxOps = 4
INVARIANTS RegIsFirstObserved SentImpliesRecorded
PROPERTY FirstWins
CHECK_DEADLOCK FALSE
