SPECIFICATION Spec
CONSTANTS
  KeySeq <- KeySeq2
  Configs <- ConfigsTimeQ
  KeyModes = {"", "if_new_refresh"}
  CasOffs = {}
  CasEps = {}
  Versions = {0}
  VerEpochs = {""}
  IdemKeys = {""}
  IdemTTLs = {1}
  Scores = {0}
  Limits <- LimitsTiny
  ReadEps <- ReadEpsSmall
  SinceOffs <- SinceOffsTiny
  PageSizes = {1, 2}
  MaxNow = 3
  MaxPubs = 3
  MaxOps = 3
  Deterministic = FALSE
  Manual = FALSE
VIEW View
INVARIANTS TypeOK ReadStreamIsRetainedSuffix ReadStateIsRefPage PaginationEnumerates PageAfterCursor OrderedFlagFollowsOptions OverdueKeysGone SweeperArmed SubscriberConverges
PROPERTIES FoldPublish FoldRemove OnlyWritesChangeState CheckOrder RemoveReason SuppressedChangesNothing AppliedAppendsAndBroadcastsOnce BroadcastOnlyByChange EpochStable EpochFresh SingleKeyExact ExpiryRemovesOnce ExpiryDeliversQueued RefreshedSurvive ExpiryNoopChangesNothing NeverLostNeverTwice VersionExact UnversionedKeepsVersion VersionedStoresVersion IdemReturnsOriginal IdemSavedOnApply IdemExact IdemSweepKeepsValid HandlerInOffsetOrder WritersWaitForSweeper
CHECK_DEADLOCK FALSE
