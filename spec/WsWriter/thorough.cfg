SPECIFICATION Spec
CONSTANTS
  Bs = {16, 125, 130}
  WClasses = {"0", "1", "B-1", "B", "B+1", "2B", "2B+1", "L", "L+1", "125", "126"}
  OClasses = {"0", "1", "B", "B+1", "2B+1", "L", "L+1", "125", "126"}
  PClasses = {"0", "1", "125", "126", "PB", "PB+1"}
  MaxOps = 4
  MaxWrites = 3
INVARIANTS TypeOK Monitor Dangling ControlLimit ErrorsEmitNothing
VIEW View
CHECK_DEADLOCK FALSE
