SPECIFICATION FairSpec
CONSTANTS
  Conns = {"c1"}
  Keys = {"k1"}
  MaxChg = 1
  MaxFlips = 1
  MaxOps = 3
  Versioned = TRUE
  Timer = TRUE
  AllowRevoke = FALSE
  AllowPublish = TRUE
  SplitTrack = FALSE
  AsCoded = {}
  Replay = FALSE
INVARIANTS TypeOK VersionConsistent C25_Epoch
PROPERTIES C25_Frames C25_Live
CHECK_DEADLOCK FALSE
