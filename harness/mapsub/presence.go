// C05 (map part): replay of spec/MapSub/MapPresence behaviours.
//
// A subscription with MapClientPresenceChannel / MapUserPresenceChannel (map or stream subscription) or a map
// subscription with MapRemoveClientOnUnsubscribe keeps keys in map channels on behalf of the connection; after the
// subscription / the connection ended no key of the CONNECTION (key = client id) may remain.  The removal runs in
// close() after the transport was closed, i.e. possibly with a cancelled connection context; a MapBroker that honours
// the context refuses a call made with a cancelled one.  Here the node's map broker is a thin context-honouring
// wrapper around the real MemoryMapBroker (ctxMapBroker), the connection context is cancelled before the close
// function is called (the peer went away) or by Transport.Close (cancelTransport), or stays live (server-initiated
// disconnect), and after every step the keys really held in the presence / data channels are read through the inner
// broker and compared with the model.
package main

import (
	"context"
	"encoding/json"
	"fmt"
	"sort"
	"strings"
	"sync"
	"time"

	"github.com/centrifugal/centrifuge"
	"github.com/centrifugal/protocol"

	"verifharness/cl"
	"verifharness/vh"
)

// ctxMapBroker forwards to the memory map broker, but like a broker that talks to a remote store it refuses every
// call made with a context that is already done.
type ctxMapBroker struct {
	Inner *centrifuge.MemoryMapBroker
}

func (b *ctxMapBroker) RegisterEventHandler(h centrifuge.BrokerEventHandler) error {
	return b.Inner.RegisterEventHandler(h)
}
func (b *ctxMapBroker) Close(ctx context.Context) error { return b.Inner.Close(ctx) }
func (b *ctxMapBroker) Subscribe(chs ...string) error   { return b.Inner.Subscribe(chs...) }
func (b *ctxMapBroker) Unsubscribe(chs ...string) error { return b.Inner.Unsubscribe(chs...) }
func (b *ctxMapBroker) Publish(ctx context.Context, ch string, key string, opts centrifuge.MapPublishOptions) (centrifuge.MapUpdateResult, error) {
	if err := ctx.Err(); err != nil {
		return centrifuge.MapUpdateResult{}, err
	}
	return b.Inner.Publish(ctx, ch, key, opts)
}
func (b *ctxMapBroker) Remove(ctx context.Context, ch string, key string, opts centrifuge.MapRemoveOptions) (centrifuge.MapUpdateResult, error) {
	if err := ctx.Err(); err != nil {
		return centrifuge.MapUpdateResult{}, err
	}
	return b.Inner.Remove(ctx, ch, key, opts)
}
func (b *ctxMapBroker) Clear(ctx context.Context, ch string, opts centrifuge.MapClearOptions) error {
	if err := ctx.Err(); err != nil {
		return err
	}
	return b.Inner.Clear(ctx, ch, opts)
}
func (b *ctxMapBroker) Stats(ctx context.Context, ch string) (centrifuge.MapStats, error) {
	if err := ctx.Err(); err != nil {
		return centrifuge.MapStats{}, err
	}
	return b.Inner.Stats(ctx, ch)
}
func (b *ctxMapBroker) ReadStream(ctx context.Context, ch string, opts centrifuge.MapReadStreamOptions) (centrifuge.MapStreamResult, error) {
	if err := ctx.Err(); err != nil {
		return centrifuge.MapStreamResult{}, err
	}
	return b.Inner.ReadStream(ctx, ch, opts)
}
func (b *ctxMapBroker) ReadState(ctx context.Context, ch string, opts centrifuge.MapReadStateOptions) (centrifuge.MapStateResult, error) {
	if err := ctx.Err(); err != nil {
		return centrifuge.MapStateResult{}, err
	}
	return b.Inner.ReadState(ctx, ch, opts)
}

// cancelTransport is the recording transport whose Close cancels the connection context first (like a transport
// bound to a request context).
type cancelTransport struct {
	*cl.Transport
	cancel context.CancelFunc
	on     bool
}

func (t *cancelTransport) Close(d centrifuge.Disconnect) error {
	if t.on {
		t.cancel()
	}
	return t.Transport.Close(d)
}

type presCfg struct {
	kind                           string
	cpres, upres, cleanup, cancels bool
}

type presWorker struct {
	env   *cl.Env
	inner *centrifuge.MemoryMapBroker
	cfgs  sync.Map // data channel -> presCfg
	ticks int
}

func presChannels(data string) (string, string) { return "pc_" + data, "pu_" + data }

func newPresWorker() (*presWorker, error) {
	w := &presWorker{}
	env, err := cl.NewEnv(centrifuge.Config{
		LogLevel: centrifuge.LogLevelNone,
		Map: centrifuge.MapConfig{GetMapChannelOptions: func(string) centrifuge.MapChannelOptions {
			return centrifuge.MapChannelOptions{Mode: centrifuge.MapModeRecoverable, KeyTTL: time.Hour, MinPageSize: 1, SubscribeCatchUpTimeout: -1}
		}},
	})
	if err != nil {
		return nil, err
	}
	w.env = env
	inner, err := centrifuge.NewMemoryMapBroker(env.Node, centrifuge.MemoryMapBrokerConfig{})
	if err != nil {
		return nil, err
	}
	w.inner = inner
	env.Node.SetMapBroker(&ctxMapBroker{Inner: inner})
	env.OnSubscribe = func(_ *centrifuge.Client, e centrifuge.SubscribeEvent, cb centrifuge.SubscribeCallback) {
		opts := centrifuge.SubscribeOptions{}
		if v, ok := w.cfgs.Load(e.Channel); ok {
			pc := v.(presCfg)
			cp, up := presChannels(e.Channel)
			if pc.kind == "map" {
				opts.Type = centrifuge.SubscriptionTypeMap
			}
			if pc.cpres {
				opts.MapClientPresenceChannel = cp
			}
			if pc.upres {
				opts.MapUserPresenceChannel = up
			}
			opts.MapRemoveClientOnUnsubscribe = pc.cleanup
		}
		cb(centrifuge.SubscribeReply{Options: opts}, nil)
	}
	if err := env.Run(); err != nil {
		return nil, err
	}
	return w, nil
}

func (w *presWorker) hasKey(ch, key string) (bool, error) {
	res, err := w.inner.ReadState(context.Background(), ch, centrifuge.MapReadStateOptions{Key: key, Limit: 1})
	if err != nil {
		return false, err
	}
	return len(res.Publications) > 0, nil
}

func (w *presWorker) run(bi int, try int, beh []map[string]any, res *attempt) {
	mc := vh.Map(beh[0]["cfg"])
	pc := presCfg{kind: vh.Str(mc["kind"]), cpres: vh.Bool(mc["cpres"]), upres: vh.Bool(mc["upres"]), cleanup: vh.Bool(mc["cleanup"]), cancels: vh.Bool(mc["closeCancels"])}
	data := fmt.Sprintf("pd%d_%d_%d", vh.Seed(), bi, try)
	user := "u_" + data
	cpCh, upCh := presChannels(data)
	w.cfgs.Store(data, pc)
	defer w.cfgs.Delete(data)

	ctx, cancel := context.WithCancel(context.Background())
	defer cancel()
	ctx = centrifuge.SetCredentials(ctx, &centrifuge.Credentials{UserID: user})
	tr := &cancelTransport{Transport: cl.NewTransport(centrifuge.ProtocolTypeJSON), cancel: cancel, on: pc.cancels}
	client, closeFn, err := centrifuge.NewClient(ctx, w.env.Node, tr)
	if err != nil {
		res.Drift("C05", "NewClient: "+err.Error(), nil)
		res.Done(1, 0)
		return
	}
	var nextID uint32
	do := func(cmd *protocol.Command) *protocol.Reply {
		nextID++
		cmd.Id = nextID
		id := nextID
		client.HandleCommand(cmd, 0)
		var found *protocol.Reply
		tr.WaitFor(10*time.Second, func(rs []*protocol.Reply, closed bool) bool {
			for _, r := range rs {
				if r.Id == id {
					found = r
					return true
				}
			}
			return closed
		})
		return found
	}
	var steps []any
	completed := 1
	replay := func() map[string]any {
		return map[string]any{"cfg": mc, "steps": steps, "frames": cl.DescribeAll(tr.Replies())}
	}
	drift := func(what string) {
		res.Drift("C05", fmt.Sprintf("%s (behaviour %d, cfg %s)", what, bi, vh.J(mc)), replay())
		completed = 0
	}
	if rep := do(&protocol.Command{Connect: &protocol.ConnectRequest{}}); rep == nil || rep.Connect == nil {
		drift("connect failed")
		res.Done(1, 0)
		return
	}
	clientID := client.ID()
	disconnected := func() bool {
		for _, ev := range w.env.EventsOf(clientID) {
			if ev.Kind == "disconnect" {
				return true
			}
		}
		return false
	}
	realKeys := func() ([]string, error) {
		var ks []string
		for _, q := range []struct{ name, ch, key string }{{"cp", cpCh, clientID}, {"up", upCh, user}, {"ck", data, clientID}} {
			ok, err := w.hasKey(q.ch, q.key)
			if err != nil {
				return nil, err
			}
			if ok {
				ks = append(ks, q.name)
			}
		}
		sort.Strings(ks)
		return ks, nil
	}
	ctxState := "live"
	for si := 1; si < len(beh) && completed == 1; si++ {
		st := beh[si]
		step := vh.Map(st["step"])
		act := vh.Str(step["act"])
		steps = append(steps, step)
		switch act {
		case "Subscribe":
			req := &protocol.SubscribeRequest{Channel: data}
			if pc.kind == "map" {
				req.Type = int32(centrifuge.SubscriptionTypeMap)
				req.Phase = centrifuge.MapPhaseState
				req.Limit = 100
			}
			if rep := do(&protocol.Command{Subscribe: req}); rep == nil || rep.Subscribe == nil {
				drift("subscribe failed: " + fmt.Sprint(rep))
			}
		case "ClientPublish":
			// the client's own key (key = client id), as a client publish into the map channel would store it
			if _, err := w.env.Node.MapPublish(context.Background(), data, clientID, centrifuge.MapPublishOptions{Data: []byte(`{}`)}); err != nil {
				drift("client publish: " + err.Error())
			}
		case "Tick":
			w.ticks++
			centrifuge.VerifMapSubPositionTick(client, time.Duration(w.ticks)*3*time.Hour)
		case "CtxCancel":
			cancel()
			ctxState = "cancelled"
		case "Unsubscribe":
			if rep := do(&protocol.Command{Unsubscribe: &protocol.UnsubscribeRequest{Channel: data}}); rep == nil || rep.Unsubscribe == nil {
				drift("unsubscribe failed")
			}
		case "CloseTransport":
			if pc.cancels {
				ctxState = "cancelled"
			}
			if vh.Bool(step["peer"]) {
				go func() { _ = closeFn() }() // the transport handler noticed that the peer is gone
			} else {
				client.Disconnect(centrifuge.DisconnectForceNoReconnect) // server-initiated
			}
			continue // close() runs through: judged after CloseCleanup
		case "CloseCleanup":
			deadline := time.Now().Add(15 * time.Second)
			for !disconnected() && time.Now().Before(deadline) {
				time.Sleep(time.Millisecond)
			}
			if !disconnected() {
				drift("close() did not finish")
			}
		default:
			drift("unknown action " + act)
		}
		if completed == 0 {
			break
		}
		real, err := realKeys()
		if err != nil {
			drift("reading the presence channels: " + err.Error())
			break
		}
		var model []string
		for _, k := range vh.List(st["keys"]) {
			model = append(model, vh.Str(k))
		}
		sort.Strings(model)
		ended := vh.Str(st["sub"]) == "gone" || vh.Str(st["conn"]) == "closed"
		if ended {
			// C05: nothing of the connection (key = client id) remains once its subscription / the connection ended
			for _, k := range real {
				if k == "cp" || k == "ck" {
					what := map[string]string{"cp": "map-presence-survives-", "ck": "map-client-key-survives-"}[k]
					how := map[bool]string{true: "close", false: "unsubscribe"}[vh.Str(st["conn"]) == "closed"]
					res.Violate("C05", what+how+":"+ctxState+"-context", fmt.Sprintf("after %s (connection context %s when the cleanup ran) the %s of the connection is still in the broker: keys held %v, reference %v (behaviour %d cfg %s)",
						how, ctxState, map[string]string{"cp": "client presence entry (key = client id in the MapClientPresenceChannel)", "ck": "client-id key in the map channel (MapRemoveClientOnUnsubscribe)"}[k], real, model, bi, vh.J(mc)), replay())
					completed = 0
				}
			}
			if completed == 0 {
				break
			}
		}
		if strings.Join(real, ",") != strings.Join(model, ",") {
			drift(fmt.Sprintf("keys held for the connection after %s: real %v, model %v", act, real, model))
		}
	}
	if !disconnected() {
		client.Disconnect(centrifuge.DisconnectForceNoReconnect)
	}
	if completed == 1 {
		res.Distinct(vh.J(mc) + vh.J(steps))
	}
	if bi < 2 {
		res.Sample(replay())
	}
	res.Done(1, completed)
}

func presence(in json.RawMessage, res *vh.Result) error {
	var ri struct {
		Behaviours [][]map[string]any `json:"behaviours"`
	}
	if err := json.Unmarshal(in, &ri); err != nil {
		return err
	}
	const nw = 4
	var wg sync.WaitGroup
	jobs := make(chan int)
	for i := 0; i < nw; i++ {
		w, err := newPresWorker()
		if err != nil {
			return err
		}
		wg.Add(1)
		go func() {
			defer wg.Done()
			defer w.env.Close()
			for bi := range jobs {
				// same policy as the map subscription replay: anything but a clean pass is executed again
				var final *attempt
				var first *attempt
				for try := 0; try < 3; try++ {
					a := &attempt{}
					func() {
						defer func() {
							if p := recover(); p != nil {
								a.Drift("C05", fmt.Sprintf("panic in behaviour %d: %v", bi, p), nil)
							}
						}()
						w.run(bi, try, ri.Behaviours[bi], a)
					}()
					final = a
					if first == nil {
						first = a
					}
					if len(a.violations) == 0 && len(a.drifts) == 0 {
						break
					}
					if try > 0 && a.sigs() == first.sigs() && len(a.violations) > 0 {
						break // the violation showed twice with the same signature
					}
				}
				for _, v := range final.violations {
					res.Violate(v.Prop, v.Sig, v.What, v.Replay)
				}
				for _, d := range final.drifts {
					res.Drift(d.Prop, d.What, d.Replay)
				}
				for _, k := range final.distinct {
					res.Distinct(k)
				}
				for _, x := range final.samples {
					res.Sample(x)
				}
				res.Done(1, final.completed)
			}
		}()
	}
	for bi := range ri.Behaviours {
		jobs <- bi
	}
	close(jobs)
	wg.Wait()
	return nil
}
