package main

import (
	"sync"
	"time"

	"github.com/centrifugal/centrifuge"
)

// sched is a centrifuge.TimerScheduler (public interface, Config.ClientTimerScheduler) that never fires on its
// own: it records what the connections schedule and the harness fires a timer exactly when the TLC behaviour says.
// ScheduleTimer carries no connection identity, so a timer belongs to the connection the harness is acting on
// when it is scheduled (`owner`); the harness is quiescent between steps, so that attribution is exact.
type sched struct {
	mu     sync.Mutex
	timers []*vtimer
	owner  string
	seq    int
}

type vtimer struct {
	s        *sched
	seq      int
	owner    string
	d        time.Duration
	at       time.Time
	cb       func()
	canceled bool
	fired    bool
}

func (t *vtimer) Cancel() {
	t.s.mu.Lock()
	t.canceled = true
	t.s.mu.Unlock()
}

func (s *sched) ScheduleTimer(d time.Duration, cb func()) centrifuge.TimerCanceler {
	s.mu.Lock()
	defer s.mu.Unlock()
	s.seq++
	t := &vtimer{s: s, seq: s.seq, owner: s.owner, d: d, at: time.Now(), cb: cb}
	s.timers = append(s.timers, t)
	return t
}

func (s *sched) setOwner(o string) {
	s.mu.Lock()
	s.owner = o
	s.mu.Unlock()
}

// reset forgets everything (start of a behaviour).
func (s *sched) reset() {
	s.mu.Lock()
	s.timers = nil
	s.owner = ""
	s.mu.Unlock()
}

// active returns the armed (not cancelled, not fired) timers of an owner, oldest first.
func (s *sched) active(owner string) []*vtimer {
	s.mu.Lock()
	defer s.mu.Unlock()
	var out []*vtimer
	for _, t := range s.timers {
		if t.owner == owner && !t.canceled && !t.fired {
			out = append(out, t)
		}
	}
	return out
}

// fire runs the single armed timer of the owner on the calling goroutine. Returns the duration it was armed
// with, or ok=false when there is not exactly one armed timer.
func (s *sched) fire(owner string) (time.Duration, int, bool) {
	a := s.active(owner)
	if len(a) != 1 {
		return 0, len(a), false
	}
	t := a[0]
	s.mu.Lock()
	t.fired = true
	s.mu.Unlock()
	t.cb()
	return t.d, 1, true
}

// take dequeues the single armed timer of the owner without running it (the caller runs t.cb later): what a
// scheduler does between a timer becoming due and its callback getting to execute.
func (s *sched) take(owner string) *vtimer {
	a := s.active(owner)
	if len(a) != 1 {
		return nil
	}
	s.mu.Lock()
	a[0].fired = true
	s.mu.Unlock()
	return a[0]
}

// waitArmed waits until the owner has an armed timer scheduled after seq `after` (re-arm done), or timeout.
func (s *sched) waitArmed(owner string, after int, timeout time.Duration) bool {
	deadline := time.Now().Add(timeout)
	for {
		for _, t := range s.active(owner) {
			if t.seq > after {
				return true
			}
		}
		if time.Now().After(deadline) {
			return false
		}
		time.Sleep(200 * time.Microsecond)
	}
}

func (s *sched) lastSeq() int {
	s.mu.Lock()
	defer s.mu.Unlock()
	return s.seq
}

// rename re-attributes the timers of an owner (a connection's id is known only after NewClient returned).
func (s *sched) rename(from, to string) {
	s.mu.Lock()
	for _, t := range s.timers {
		if t.owner == from {
			t.owner = to
		}
	}
	if s.owner == from {
		s.owner = to
	}
	s.mu.Unlock()
}
