SPECIFICATION SubSpec
CONSTANTS
  Keys = {"a", "b"}
  NonPub = {"join"}
  Sizes = {0, 2, 3}
  Delays = {TRUE, FALSE}
  Lates = {TRUE, FALSE}
  Threads = {1}
  MaxAdds = 4
  MaxEnds = 100
  AtomicAdd = TRUE
  StaleTimers = FALSE
  EarlyDel = TRUE
  MaxGen = 3
VIEW SubView
INVARIANTS TypeOK LatUnique PendingAgree TimerSane NoLeftover
PROPERTIES GenBracket OrderPreserved LatestCoalesced EndDiscards SizeExact
CHECK_DEADLOCK FALSE
