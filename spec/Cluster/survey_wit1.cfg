SPECIFICATION Spec
CONSTANTS
  Nodes = {"n2"}
  Extra = {}
  MaxSurveys = 2
  MaxDeliver = 4
  LocalModes = {"sync", "async"}
  DupOK = TRUE
  Causal = TRUE
  LocalSend = "nonblocking"
VIEW View
PROPERTIES WitLateLocalDrop
CHECK_DEADLOCK FALSE
