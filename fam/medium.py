"""C13 (per-channel batching, spec/ChanWriter) and C38 (channel medium, spec/Medium).

C13: ChanWriter.tla is checked exhaustively (single producer, then two producers with perChannelWriter.Add split into
its two critical sections), TLC-simulated behaviours are replayed on the REAL perChannelWriter (overlay shim, recording
flush function, real timers), recorded concurrent executions are validated against ChanWriterTrace.tla, and the
client-level window "broadcast passed the subscribed check, unsubscribe removed the writer, the broadcast re-creates it"
is driven on a real node + client through natural gates.  Verdicts come from observable-only monitors on what the flush
function / the transport received.

C38: Medium.tla (all option sets) exhaustively, MediumSim behaviours replayed on a real node with GetChannelMediumOptions
(unexported options + clocks through the shim), real clients, cl.GateBroker controlling the wire; monitors on real frames.

GENUINE DEFECT (C13, unchanged tree, every seed): signatures `race:pub-after-unsubscribe-reply:plain` and
`race:pub-after-unsubscribe-reply:pos`.  Schedule (natural gates only): client subscribed, batching MaxDelay 40 ms;
Node.Publish: the hub broadcast passes the connection's subscribed check and is parked in the application's LogHandler
("-out->" trace entry, before writeEncodedPushData); client sends unsubscribe: c.channels entry deleted and
perChannelWriter.delWriter(ch,false) under c.mu, the command then waits in hub.removeSub for the broadcast's shard RLock;
broadcast released: perChannelWriter.Add -> getWriter re-creates the writer, arms the MaxDelay timer; unsubscribe reply
written; 40 ms later the timer flushes: publication push AFTER the unsubscribe reply.  (Without batching the item is
enqueued before the reply because the unsubscribe waits for the shard lock: the batching layer creates the violation.)
Candidate repair (12 added lines, no hot-path change): spec/ChanWriter/fix-c13-delwriter.patch -- after
node.removeSubscription returned (which waited for in-flight broadcasts) drop the channel writer once more unless the
channel was subscribed again; regression test for the repository: spec/ChanWriter/fix-c13-regression_test.go.txt.
With the patch `./check C13` exits 0 (264/264) and `go test -run 'Batch|ChannelWriter|PerChannel|Medium|Unsubscribe|Subscribe' .` passes.

FIXED in /repo by 50aef2b9 (was: OPEN after b5fb93b8): perChannelWriter.Add = getWriter + w.Add; a broadcast that fetched the
 writer just before unsubscribe's first delWriter added to the closed, deleted writer, which neither delWriter reaches; its
 timer flushed after the unsubscribe.  Now channelWriter.close sets `closed`, Add refuses a closed writer and
 perChannelWriter.Add looks the writer up again (dropping the item once the perChannelWriter itself is closed).  The model
 follows (ClosedRefuses = TRUE; Retry action; orphan_witness.cfg / race.cfg are the unrepaired variant); checked on the real
 code by cwClosedWriterCheck (two halves of Add through the shim) and the Add-versus-delWriter stress loop, signature
 `cw:add-into-closed-writer:orphan-flush`; `git revert 50aef2b9` turns ./check C13 red with that signature.

KNOWN FINDING on HEAD (known_findings.json, signature `resub:inflight-broadcast-into-new-subscription:plain|pos`; harness
cwClientResubInflight, a verdict on real frames with natural gates; model resub_inflight_witness.cfg: GetWriter; Del;
WAdd(refused); Retry; WAdd; Resub; TimerFire violates GenBracket).  Distinct from `resub:old-publication-in-new-subscription`
(seed C13-2: a publication buffered BEFORE the unsubscribe survives because the first delWriter site is missing):
 subscribe (generation 1); a broadcast passes the subscribed check (parked in LogHandler "-out->"); server-side Unsubscribe
 deletes c.channels[ch] + delWriter and is parked at Broker.PublishLeave (before removeSubscription); the broadcast is
 released: its Add re-creates the channel writer and buffers the push; the client subscribes again (reply 2; hub.addSub could
 proceed because the broadcast is over); the Unsubscribe is released: its second delWriter is skipped because the channel is
 subscribed again; MaxDelay later the generation-1 push is flushed after the second subscribe reply.  (Both fixes keep the
 "unless subscribed again" clause; without a resubscribe the split-Add model is clean: gen_split_noresub.cfg.)

Observations outside the properties' quantifiers (evidence only, no verdict):
 * coverage.batching_off_probe (model cfgswitch_direct_witness.cfg): GetChannelBatchConfig switching a channel from batching to
   no batching while a push is buffered: the next push is written directly and overtakes it ([2, 1] on the wire).
 * evidence C13 coverage.cfg_change_probe: if GetChannelBatchConfig turns FlushLatestPublication off while a publication
   waits in latestPubs, flushLocked takes `batch = w.buffer` and clears latestPubs: that publication is dropped.
 * SharedPositionSync compares only the position of whichever connection reaches the medium first in a check period; a
   subscriber with a stale position stays undetected (until the next publication) while a freshly subscribed one wins
   (Medium.tla Tick, quick_p2.cfg).  A first subscriber arriving within the dissolver's 1 s replaces the medium object
   without closing the old one (its queue writer goroutine stays; not modelled).

Mutation testing (scratch worktrees /tmp/medium-m-*, `VERIF_REPO=<wt> ./check Cxx`; C13 mutations on HEAD + the repair
above so that the baseline is exit 0):
 C13  keep the OLDEST publication per key ............... exit 1  latest:older-publication, trace:latest:older-publication
      join/leave emitted after the publications ........ exit 1  latest:nonpub-after-pub
      size flush drops the item that triggered it ...... exit 1  normal:skipped, lost-on-flush:*
      delWriter(false) still flushes ................... exit 1  discard-flushed:delWriter
      close(false) keeps buffer and armed timer ........ exit 1  flush-after-end, pub-after-unsubscribe-reply:* (client level)
      Close(true) loses the last item .................. exit 1  lost-on-flush:Close / delWriter, latest:mismatch
      coalesced publications alone do not arm the timer  exit 1  timer-flush-missing
      duplicate key not removed from latestPubs ........ exit 1  latest:older-publication, trace:latest:two-per-key
      (seeded C13-2) unsubscribe: first delWriter site (under c.mu) removed, the later one skipped after a resubscribe
                                                          exit 1  resub:old-publication-in-new-subscription:plain|pos
                                                          (model: ChanWriterSub gen_witness.cfg Add; UnsubBegin; Resub; Add)
      (seeded C13-3) getWriter stores a new writer without re-checking the map (two concurrent first adds)
                                                          exit 1  cw:concurrent-first-add:orphan-writer (stress mode; model: getw_witness.cfg
                                                          Lookup; Lookup; Store; Store; WAdd; TimerFire)
      (seeded C13-4) leave pushes bypass the channel writer  exit 1  order:leave-overtakes-buffered:normal|latest (observer schedule;
                                                          model: kinds_witness.cfg Add(join); Direct(leave); TimerFire)
      timer identity check removed (`if true`) ......... exit 0  MISSED: needs the timer to expire while a size flush /
                                                          close holds the writer lock and the goroutine to pick tm.C; the
                                                          effect is a batch split early, which no C13 clause forbids
 C38  delay coalescing broadcasts the older message after the newest  exit 1  order
      positioned subscriber accepts a publication after a hole ...... exit 1  gap
      CheckPosition result ignored (returns true, no sentinel) ...... exit 1  position-loss-not-ended
      CheckPosition invalid: caller told, no sentinel broadcast ..... exit 1  position-loss-not-ended (second positioned subscriber)
      MaxUint64 sentinel not filtered for plain subscribers ......... exit 1  sentinel-delivered
      medium broadcasts twice with KeepLatestPublication ............ exit 1  duplicate
      queue writer takes two messages and broadcasts the newer first  exit 1  order
      (seeded) waitSendPub: sentinel at the head of a delay window no longer broadcast at once, coalesced away by a
               publication queued behind it ........................... exit 1  position-loss-not-ended (aimed scenario 1:
               Publish 1,2; Drop 2; +50 s; TickOne(first) -> sentinel queued; Deliver 1; WriterTick)
      (seeded C38-3) the queue size guard also drops the insufficient-state marker (shared helper submit()) .. exit 1
               position-loss-not-ended (aimed scenario 3: Publish 1-4; Deliver 1; WriterTake(park); Deliver 2,3 queued,
               Deliver 4 dropped by the medium; +50 s; TickOne(A) invalid -> marker must be queued; WriterDone; B must end)
      (seeded) CheckPosition bumps positionCheckTime on skipped requests too: staggered connections starve the check
               ........................................................ exit 1  position-loss-not-ended (aimed scenario 2:
               +50 s TickOne(A) performed; +12 s TickOne(B) skipped; Publish 1; Drop 1; +38 s TickOne(A) must be performed)
"""
import json
import re
from concurrent.futures import ThreadPoolExecutor

from lib import tlaparse, vf

def _error_trace(out):
    """States of the counterexample TLC printed on stdout."""
    i = out.find('The behavior up to this point is:')
    if i < 0:
        return []
    body = out[i:]
    m = re.search(r'^\d+ states generated', body, re.M)
    if m:
        body = body[:m.start()]
    return tlaparse.parse_states_file(body)


def c13(c):
    quick = c.tier == 'quick'
    c._specdir('ChanWriter')
    # the four TLC runs are independent: run them side by side (4 + 4 + 1 + 1 workers)
    with ThreadPoolExecutor(max_workers=10) as ex:
        # 1. design: exhaustive TLC, single producer (all cfgs x adds x timer fires x removals / closes)
        f1 = ex.submit(c.tlc_exhaustive, 'ChanWriter', 'ChanWriter', 'quick.cfg' if quick else 'thorough.cfg', workers=4, timeout=3000)
        #    two producers, Add = GetWriter + WAdd, every property except NoOrphanFlush (which is the known window)
        f2 = ex.submit(c.tlc_exhaustive, 'ChanWriter', 'ChanWriter', 'conc.cfg' if quick else 'conc_thorough.cfg', workers=4, timeout=3000)
        #    the window itself: TLC must find the orphan flush (witness, replayed below)
        f3 = ex.submit(c.tlc, 'ChanWriter', 'ChanWriter', 'race.cfg', workers=1, timeout=600, expect_violation=True)
        # 2. spec -> code: behaviours for the replay
        f4 = ex.submit(c.tlc, 'ChanWriter', 'ChanWriterSim', 'sim.cfg', simulate=200 if quick else 3000, depth=18, timeout=3000)
        #    the writer under the subscription that feeds it (generation tags; unsubscribe = two delWriter sites with a
        #    resubscribe possible in between): clean as coded, and the witness with the first site removed
        f5 = ex.submit(c.tlc_exhaustive, 'ChanWriter', 'ChanWriterSub', 'gen.cfg' if quick else 'gen_thorough.cfg', workers=2, timeout=3000)
        f6 = ex.submit(c.tlc, 'ChanWriter', 'ChanWriterSub', 'gen_witness.cfg', workers=1, timeout=600, expect_violation=True)
        #    getWriter in its two critical sections (lookup miss, create + store), two producers: clean with the re-check
        f7 = ex.submit(c.tlc_exhaustive, 'ChanWriter', 'ChanWriter', 'getw.cfg', workers=2, timeout=3000)

        def _witnesses(lst):
            return {cfg: c.tlc('ChanWriter', mod, cfg, workers=1, timeout=600, expect_violation=True) for mod, cfg in lst}
        f8 = ex.submit(_witnesses, (('ChanWriter', 'getw_witness.cfg'), ('ChanWriterSub', 'kinds_witness.cfg'), ('ChanWriterSub', 'orphan_witness.cfg')))
        f9 = ex.submit(_witnesses, (('ChanWriterSub', 'cfgswitch_latest_witness.cfg'), ('ChanWriterSub', 'cfgswitch_direct_witness.cfg'), ('ChanWriterSub', 'resub_inflight_witness.cfg')))
        #    the broadcast's Add in two steps under the two-site unsubscribe (closed writer refuses, Add looks up again), no resubscribe
        f10 = ex.submit(c.tlc_exhaustive, 'ChanWriter', 'ChanWriterSub', 'gen_split_noresub.cfg', workers=2, timeout=3000)
        r = f1.result()
        c.log('TLC exhaustive (atomic Add): %d distinct / %d generated, depth %d' % (r['distinct'], r['states'], r['depth']))
        r = f2.result()
        c.log('TLC exhaustive (split Add, 2 producers): %d distinct / %d generated, depth %d' % (r['distinct'], r['states'], r['depth']))
        w = f3.result()
        s = f4.result()
        r = f5.result()
        c.log('TLC exhaustive (subscription generations, unsubscribe in two steps, resubscribe): %d distinct / %d generated, depth %d' % (r['distinct'], r['states'], r['depth']))
        gw = f6.result()
        r = f7.result()
        c.log('TLC exhaustive (getWriter split into lookup / create+store, 2 producers): %d distinct / %d generated, depth %d' % (r['distinct'], r['states'], r['depth']))
        r = f10.result()
        c.log('TLC exhaustive (split Add under the two-site unsubscribe, closed writer refuses): %d distinct / %d generated, depth %d' % (r['distinct'], r['states'], r['depth']))
        wits = dict(f8.result())
        wits.update(f9.result())
    c.cov['witnesses'] = {}
    for cfg, wr in wits.items():
        if wr['ok']:
            c.notes.append('%s: TLC found no counterexample (the model lost the window this witness stands for)' % cfg)
        else:
            c.cov['witnesses'][cfg] = {'violated': wr['error'], 'schedule': [st['step'].get('act') for st in _error_trace(wr['out'])[1:]]}
    c.log('TLC witnesses: %s' % {k: v['schedule'] for k, v in c.cov['witnesses'].items()})
    if gw['ok']:
        c.notes.append('gen_witness.cfg: TLC found no counterexample to GenBracket without the first delWriter site')
    else:
        gwit = _error_trace(gw['out'])
        c.cov['generation_witness'] = [st['step'].get('act') for st in gwit[1:]]
        c.log('TLC witness for the resubscribe window without the early delWriter: %s' % c.cov['generation_witness'])
    witness = []
    if w['ok']:
        c.notes.append('race.cfg: TLC found no counterexample to NoOrphanFlush (the model no longer contains the delWriter window)')
    else:
        witness = _error_trace(w['out'])
        c.log('TLC witness for the delWriter window: %d states (%s)' % (len(witness), w['error']))
    binp = c.go_build('medium')
    if not s['ok']:
        raise vf.Inconclusive('simulation failed: %s\n%s' % (s['error'], s['out'][-2000:]))
    behs = c.behaviours(s)
    c.log('TLC simulate: %d behaviours' % len(behs))
    res = c.harness(binp, 'cwreplay', behs, timeout=900)
    c.absorb(res)
    c.cov['traces_validated_against_impl'] += res['completed']
    c.cov['evaluations'] += res['executed']
    c.cov['distinct_nontrivial'] += res['nontrivial']
    c.cov['samples'] += (res['samples'] or [])[:1]
    c.cov['replay_counters'] = res['counters']
    if res['completed'] == 0 and not res['violations']:
        raise vf.Inconclusive('no behaviour completed on the real perChannelWriter')
    # 3. code -> spec: recorded concurrent executions validated against ChanWriterTrace
    nt = 60 if quick else 600
    tr = c.harness(binp, 'cwtrace', {'n': nt, 'adds': 8}, timeout=600)
    c.absorb(tr)
    traces = [t for t in tr['extra']['traces'] if t]
    remaining = list(traces)
    accepted = 0
    for _round in range(8):
        events, bounds = [], []
        for t in remaining:
            events += t
            bounds.append(len(events))
        if not events:
            break
        ok, info = c.validate_trace('ChanWriter', 'ChanWriterTrace', 'trace.cfg', events, timeout=1500)
        if ok:
            accepted += len(remaining)
            break
        pref = info.get('matched_prefix', 0)
        bad_i = next((i for i, b in enumerate(bounds) if pref < b), len(remaining) - 1)
        t = remaining[bad_i]
        ok1, info1 = c.validate_trace('ChanWriter', 'ChanWriterTrace', 'trace.cfg', t, timeout=300)
        if ok1:
            raise vf.Inconclusive('batch of traces rejected but the single trace is accepted: %s' % info)
        k = info1.get('matched_prefix', 0)
        ev = t[k] if k < len(t) else None
        err = info1.get('error') or ''
        if 'violated' in err and 'Postcondition' not in err:
            # a property of the specification is false on the recorded execution of the real code
            name = re.search(r'(?:property|Invariant) (\w+)', err)
            c.violation('trace:spec:%s' % (name.group(1) if name else 'property'),
                        'recorded execution of the real perChannelWriter violates %s at event %d %s (cfg %s)' % (err, k, ev, t[0].get('cfg')),
                        {'trace': t, 'matched_prefix': k})
        else:
            # not a behaviour of the model; the observable-only monitor (already run by the harness) did or did not fire
            c.drifts.append({'what': 'recorded execution is not a behaviour of ChanWriter: event %d %s not allowed after the matched prefix (cfg %s)' % (k, ev, t[0].get('cfg')),
                             'replay': {'trace': t, 'matched_prefix': k}})
        accepted += bad_i
        remaining = remaining[bad_i + 1:]
    else:
        c.notes.append('more than 8 rejected traces; %d left unvalidated' % len(remaining))
    c.cov['traces_validated_against_impl'] += accepted
    c.cov['evaluations'] += len(traces)
    c.cov['distinct_nontrivial'] += tr['nontrivial']
    c.cov['trace_events'] = sum(len(t) for t in traces)
    c.cov['samples'].append({'recorded_trace': traces[0][:14]})
    # 4. the delWriter window on a real client (natural gates), plus the TLC witness on the real perChannelWriter
    rr = c.harness(binp, 'cwrace', {'witness': witness, 'rounds': 1 if quick else 5}, timeout=300)
    c.absorb(rr)
    c.cov['evaluations'] += rr['executed']
    c.cov['traces_validated_against_impl'] += rr['completed']
    c.cov['distinct_nontrivial'] += rr['nontrivial']
    # 5. concurrent first adds on fresh channels of one real perChannelWriter (getWriter's create-and-store window)
    st = c.harness(binp, 'cwstress', {'channels': 2500 if quick else 20000}, timeout=600)
    c.absorb(st)
    c.cov['evaluations'] += st['executed']
    c.cov['traces_validated_against_impl'] += st['completed']
    c.cov['distinct_nontrivial'] += st['nontrivial']
    c.cov['stress_counters'] = st['counters']
    for k in ('closed_writer_check', 'batching_off_probe'):
        c.cov[k] = (rr.get('extra') or {}).get(k)
    c.cov['race_unit_witness'] = (rr.get('extra') or {}).get('unit_witness')
    c.cov['cfg_change_probe'] = (rr.get('extra') or {}).get('cfg_change_probe')
    c.cov['rule'] = ('behaviours: TLC -simulate of ChanWriterSim (cfg chosen in Init; Add/TimerFire/DelWriter/Close weighted by slots) replayed on the real '
                     'perChannelWriter with MaxDelay 30 ms (retried with 200 ms / 1 s when a step disagrees), the model\'s TimerFire = waiting for the real flush; '
                     'non-trivial = completed behaviour with a batch of >= 2 items or a discard of buffered items, distinct by (cfg, steps); '
                     'traces: 2 adders + unsubscriber + closer, seeded, validated by TLC against ChanWriterTrace (non-trivial = has a batch of >= 2 items); '
                     'client level: 2 subscription kinds x (plain unsubscribe | unsubscribe inside the broadcast window | resubscribe inside a server-side unsubscribe parked at Broker.PublishLeave with a publication still buffered), join / publication / leave / publication inside one batch window seen by an observer (normal and latest mode); '
                     'stress: 2500 (20000) fresh channels, two spin-released first adders + a third push filling MaxSize + delWriter(false)')
    c.assumptions += ['one channel per perChannelWriter instance (the writers map is keyed by channel, writers share nothing)',
                      'the ChannelBatchConfig of a channel does not change between Adds',
                      'timer goroutines are scheduled within 3 s of their deadline (a later flush is reported as timer-flush-missing)',
                      'goroutine identity inside the flush function (runtime.Stack) tells a flush made by the calling operation from a timer flush']


def c38(c):
    quick = c.tier == 'quick'
    c._specdir('Medium')
    with ThreadPoolExecutor(max_workers=5) as ex:
        # 1. design: exhaustive TLC, asynchronous goroutines delayed arbitrarily (Urgent = FALSE)
        f1 = ex.submit(c.tlc_exhaustive, 'Medium', 'Medium', 'quick.cfg' if quick else 'thorough.cfg', workers=4, timeout=3000)
        #    two positioned subscribers with the shared position check (first caller's position decides)
        #    (thorough tier; the quick tier has two positioned subscribers in the explicit-clock configuration below)
        f2 = None if quick else ex.submit(c.tlc_exhaustive, 'Medium', 'Medium', 'thorough_p2.cfg', workers=4, timeout=3000)
        # 2. behaviours for the replay (Urgent = TRUE)
        f3 = ex.submit(c.tlc, 'Medium', 'MediumSim', 'sim.cfg', simulate=120 if quick else 1500, depth=24, timeout=3000)
        #    explicit clock: per-connection ticks, positionCheckTime moved by performed checks only
        f4 = ex.submit(c.tlc_exhaustive, 'Medium', 'Medium', 'timed_quick.cfg' if quick else 'timed.cfg', workers=4, timeout=3000)
        #    aimed behaviours (scripted schedules: sentinel first in a delay window then a publication; staggered ticks)
        f5 = ex.submit(c.tlc, 'Medium', 'MediumAim', 'aim.cfg', simulate=220 if quick else 800, depth=40, timeout=3000)
        r = f1.result()
        c.log('TLC exhaustive (1 positioned + 1 plain subscriber, all option sets): %d distinct / %d generated, depth %d' % (r['distinct'], r['states'], r['depth']))
        if f2 is not None:
            r = f2.result()
            c.log('TLC exhaustive (2 positioned subscribers, shared position check): %d distinct / %d generated, depth %d' % (r['distinct'], r['states'], r['depth']))
        s = f3.result()
        r = f4.result()
        c.log('TLC exhaustive (explicit clock, 2 positioned subscribers): %d distinct / %d generated, depth %d' % (r['distinct'], r['states'], r['depth']))
        a = f5.result()
    if not s['ok']:
        raise vf.Inconclusive('simulation failed: %s\n%s' % (s['error'], s['out'][-2000:]))
    if not a['ok']:
        raise vf.Inconclusive('aimed simulation failed: %s\n%s' % (a['error'], a['out'][-2000:]))
    binp = c.go_build('medium')
    behs = c.behaviours(s)
    c.log('TLC simulate: %d behaviours' % len(behs))
    res = c.harness(binp, 'mdreplay', {'qmax': 1, 'behaviours': behs}, timeout=1800)
    c.absorb(res)
    c.cov['traces_validated_against_impl'] += res['completed']
    c.cov['evaluations'] += res['executed']
    c.cov['distinct_nontrivial'] += res['nontrivial']
    c.cov['samples'] += (res['samples'] or [])[:1]
    c.cov['replay_counters'] = res['counters']
    if res['completed'] == 0 and not res['violations']:
        raise vf.Inconclusive('no behaviour completed on the real node')
    # aimed, timed behaviours: manual client timers (Config.ClientTimerScheduler), check delay 40 s, injected clocks
    abehs = c.behaviours(a)
    seen, uniq = set(), []
    for b in abehs:                      # the script is deterministic: one behaviour per initial state
        key = json.dumps([b[0]['scen'], b[0]['fst'], b[0]['opts']], sort_keys=True)
        if key not in seen:
            seen.add(key)
            uniq.append(b)
    c.log('TLC simulate (aimed): %d behaviours, %d distinct (scenario, first connection, options)' % (len(abehs), len(uniq)))
    if not any(b[0]['scen'] == 1 and b[0]['opts']['shared'] and b[0]['opts']['delay'] for b in uniq) or \
       not any(b[0]['scen'] == 2 and b[0]['opts']['shared'] for b in uniq) or \
       not any(b[0]['scen'] == 3 and b[0]['opts']['shared'] for b in uniq):
        raise vf.Inconclusive('the aimed behaviours do not cover all three scenarios with the shared position check')
    ares = c.harness(binp, 'mdreplay', {'qmax': 1, 'manual': True, 'behaviours': uniq}, timeout=900)
    c.absorb(ares)
    c.cov['traces_validated_against_impl'] += ares['completed']
    c.cov['evaluations'] += ares['executed']
    c.cov['distinct_nontrivial'] += ares['nontrivial']
    c.cov['aimed_counters'] = ares['counters']
    c.cov['samples'] += (ares['samples'] or [])[:1]
    c.cov['rule'] = ('behaviours: TLC -simulate of MediumSim (option set chosen in Init; 3 subscribers p1, p2 positioned, n plain) replayed on a real node with '
                     'GetChannelMediumOptions, cl.GateBroker withholding / dropping / reordering deliveries, the queue writer held inside a broadcast through the '
                     'LogHandler trace entry, broadcast delay 300 ms real, position checks triggered by advancing the injected clocks; '
                     'aimed behaviours (MediumAim: sentinel first in a broadcast-delay window followed by a late delivery; two connections ticking 12 s apart with a 40 s '
                     'check delay on a quiet channel) for every option set, replayed with manual client timers and the injected clocks advanced by the script; '
                     'non-trivial = completed behaviour with a dropped delivery, a queue-full drop, a parked writer, a coalescing delay tick or a non-valid position check; distinct by (options, steps)')
    c.assumptions += ['client-side subscriptions, JSON protocol, one channel per behaviour, one node',
                      'asynchronous insufficient-state goroutines and the queue writer run before the next scheduled step (Urgent); schedules in which the writer races the '
                      'unsubscribes its own broadcast spawned are explored by TLC only',
                      'with SharedPositionSync the replay ticks only when all live positioned subscribers hold the same position (which connection reaches the medium first cannot be scheduled)',
                      'a first subscriber arriving before the dissolver closed the previous medium object is not modelled',
                      'aimed (explicit-clock) behaviours never tick after a delivery: writePublicationUpdatePosition stamps positionCheckTime with the wall clock, not the injected one',
                      'the end of a periodic tick is observed through the repository hook verifGate("tick:done") (build tag verif)',
                      'delta compression (the use of latestPublication as delta base) is outside this spec (C14)']


CHECKS = {'C13': c13, 'C38': c38}

_note13 = ('Bounds: exhaustive 2 keys, join/leave, <=4 adds (5 thorough), MaxSize {0,2} ({0,1,2,3} thorough), delay on/off, latest on/off, <=2 removals/closes (3 thorough), '
           'stale timer goroutines included; split-Add model: 2 producers, <=3 adds, 1 removal. Replay: 200 (3000) simulated behaviours of <=10 adds; 60 (600) recorded traces of 16 adds. '
           'Trusted: TLC, lib/tlaparse.py, the harness monitors, runtime timers.')
_note38 = ('Bounds: exhaustive 12 option sets, <=2 publications (3 thorough), 1 wire fault, 1 position check, 1 resubscribe, queue limit 1 byte (1-byte payloads), subscribers {p1,n} and {p1,p2}; '
           'explicit-clock configuration: 2 positioned subscribers, check delay 40 s, clock steps {12,50} ({12,38,50} thorough), <=3 (4) per-connection ticks; '
           'aimed behaviours: 3 scripted schedules (the third for the 4 queue-without-delay option sets) x 2 first connections x option sets = 56; '
           'replay: 120 (1500) simulated behaviours with 3 subscribers, <=6 publications, 2 wire faults, 2 position checks. Trusted: TLC, lib/tlaparse.py, harness projection/monitor code, cl library.')
META = {
    'C13': dict(level='model_checking',
                text='ChanWriter.tla transcribes perChannelWriter/channelWriter (buffer, latestPubs, timer identity, getWriter/delWriter/Close) with an independent reference of what is owed to the connection; TLC checks order preservation, the latest-publication coalescing rule, flush/discard on removal and close exhaustively; simulated behaviours are replayed on the real perChannelWriter with real timers, concurrent executions of the real code are validated as behaviours of the spec, and the unsubscribe-versus-broadcast window is driven on a real client through natural gates; observable-only monitors on the flushed batches / received frames decide.',
                note=_note13, technique='TLA+ spec + TLC exhaustive; behaviour replay into perChannelWriter; trace validation of recorded concurrent executions; natural-gate schedule on a real client'),
    'C38': dict(level='model_checking',
                text='Medium.tla models the channel medium over all option sets (keep-latest, shared position sync, queue with byte limit, broadcast delay): delivery through the medium or its queue, queue-full drops, the writer goroutine with and without delay coalescing, the MaxUint64 insufficient-state sentinel, periodic position checks (per connection or shared through the medium), unsubscribe / medium shutdown / resubscribe; TLC checks order, gap-freedom of positioned subscribers, bracketing and that a detected position loss ends the affected subscriptions; simulated behaviours are replayed on a real node with real clients, the wire controlled by a broker wrapper, and the same monitors are evaluated on the real frames.',
                note=_note38, technique='TLA+ spec + TLC exhaustive; behaviour replay on a real node + clients (natural gates, injected clocks); observable-only monitors'),
}
