-------------------------- MODULE ChanWriterTrace --------------------------
(* Trace validation (code -> spec) for C13: executions recorded from the real
   perChannelWriter by harness/medium `cwtrace` (two adder goroutines, an
   unsubscriber calling delWriter, a final Close; every call, every return and
   every invocation of the flush function is one event, numbered under one
   mutex) must be behaviours of ChanWriter with AtomicAdd = FALSE.

   A call's critical sections happen somewhere between its call and return
   events: GetWriter, a WAdd / DelWriter / Close that flushes nothing, are
   silent steps; a step that flushes consumes the Flush event, which carries
   the batch and the goroutine that invoked the flush function (`by`: adder
   thread, 9 = the removing / closing goroutine, 0 = a waitTimer goroutine).
   Many traces are concatenated; each starts with a Reset event carrying its
   ChannelBatchConfig.                                                       *)
EXTENDS ChanWriter, Json, IOUtils

Trace == ndJsonDeserialize("trace.ndjson")

VARIABLES
  l,
  pc,      \* per adder: "idle", "called" (before getWriter), "got" (before w.Add), "done" (before return)
  pit,     \* per adder: the item of the call in progress
  epc      \* ender: [st |-> "idle" | "called" | "done", op |-> "Del" | "Close", fl]
tvars == <<vars, l, pc, pit, epc>>

Ev == Trace[l]
IsEvent(e) == l <= Len(Trace) /\ Ev.ev = e /\ l' = l + 1
EIdle == [st |-> "idle", op |-> "", fl |-> FALSE]

\* the model step flushed nothing (silent) or exactly the batch of the next Flush event, made by goroutine `by`
FlushMatches(by) ==
  IF step'.flushed = <<>> THEN UNCHANGED l
  ELSE /\ IsEvent("Flush") /\ Len(step'.flushed) = 1
       /\ Ids(step'.flushed[1]) = Ev.ids /\ Ev.by = by

TAddCall ==
  /\ IsEvent("AddCall") /\ pc[Ev.t] = "idle"
  /\ pc' = [pc EXCEPT ![Ev.t] = "called"]
  /\ pit' = [pit EXCEPT ![Ev.t] = [id |-> Ev.item.id, k |-> Ev.item.k, key |-> Ev.item.key]]
  /\ UNCHANGED <<vars, epc>>

TGetWriter(t) ==
  /\ pc[t] = "called" /\ GetWriter(t, pit[t])
  /\ pc' = [pc EXCEPT ![t] = "got"]
  /\ UNCHANGED <<l, pit, epc>>

TWAdd(t) ==
  /\ pc[t] = "got" /\ WAdd(t)
  /\ pc' = [pc EXCEPT ![t] = IF infl'[t].g = -2 THEN "retry" ELSE "done"]     \* refused by a closed writer: look up again
  /\ FlushMatches(t)
  /\ UNCHANGED <<pit, epc>>

TRetry(t) ==
  /\ pc[t] = "retry" /\ Retry(t)
  /\ pc' = [pc EXCEPT ![t] = "got"]
  /\ UNCHANGED <<l, pit, epc>>

TAddRet ==
  /\ IsEvent("AddRet") /\ pc[Ev.t] = "done"
  /\ pc' = [pc EXCEPT ![Ev.t] = "idle"]
  /\ UNCHANGED <<vars, pit, epc>>

TTimerFire ==
  /\ \E x \in tg : TimerFire(x)
  /\ FlushMatches(0)
  /\ UNCHANGED <<pc, pit, epc>>

TEndCall ==
  /\ epc.st = "idle"
  /\ \/ IsEvent("DelCall") /\ epc' = [st |-> "called", op |-> "Del", fl |-> Ev.fl]
     \/ IsEvent("CloseCall") /\ epc' = [st |-> "called", op |-> "Close", fl |-> Ev.fl]
  /\ UNCHANGED <<vars, pc, pit>>

TEnd ==
  /\ epc.st = "called"
  /\ IF epc.op = "Del" THEN DelWriter(epc.fl) ELSE Close(epc.fl)
  /\ epc' = [epc EXCEPT !.st = "done"]
  /\ FlushMatches(9)
  /\ UNCHANGED <<pc, pit>>

TEndRet ==
  /\ epc.st = "done"
  /\ IF epc.op = "Del" THEN IsEvent("DelRet") ELSE IsEvent("CloseRet")
  /\ epc' = EIdle
  /\ UNCHANGED <<vars, pc, pit>>

TReset ==
  /\ IsEvent("Reset")
  /\ cfg' = [size |-> Ev.cfg.size, delay |-> Ev.cfg.delay, latest |-> Ev.cfg.latest]
  /\ cur' = 0 /\ w' = <<>> /\ tg' = {} /\ infl' = [t \in Threads |-> Idle]
  /\ nadd' = 0 /\ nend' = 0 /\ ref' = <<>> /\ pclosed' = FALSE
  /\ step' = [act |-> "Init"]
  /\ pc' = [t \in Threads |-> "idle"] /\ pit' = [t \in Threads |-> NoItem] /\ epc' = EIdle

TraceInit ==
  /\ Init /\ cfg = [size |-> 0, delay |-> TRUE, latest |-> FALSE]
  /\ l = 1 /\ pc = [t \in Threads |-> "idle"] /\ pit = [t \in Threads |-> NoItem] /\ epc = EIdle
  /\ TLCSet(1, 0)
TraceNext ==
  \/ TAddCall \/ TAddRet \/ TEndCall \/ TEnd \/ TEndRet \/ TTimerFire \/ TReset
  \/ \E t \in Threads : TGetWriter(t) \/ TWAdd(t) \/ TRetry(t)
TraceSpec == TraceInit /\ [][TraceNext]_tvars

\* high-water mark of the consumed prefix; -workers 1
HighWater == TLCSet(1, IF TLCGet(1) < l - 1 THEN l - 1 ELSE TLCGet(1))
TraceAccepted ==
  IF TLCGet(1) = Len(Trace) THEN TRUE
  ELSE /\ PrintT(<<"TRACE-PREFIX", TLCGet(1), "of", Len(Trace)>>)
       /\ FALSE

TraceView == <<cfg, cur, w, tg, infl, pclosed, ref, l, pc, pit, epc>>
=============================================================================
