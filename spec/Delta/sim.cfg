SPECIFICATION SimSpec
CONSTANTS
  MaxPub = 5
  HistSize = 3
  MaxFaults = 2
  MaxSess = 3
  Kinds = {"pos", "rec", "plain", "nohist"}
  Filts = {FALSE, TRUE}
  Meds = {FALSE, TRUE}
  AllowClear = TRUE
  DeltaOpts = {TRUE, FALSE}
  PayKinds = {"sim", "unrel"}
  AsCoded = FALSE
  Withhold = FALSE
INVARIANTS TypeOK C14 HeldIsLast
CHECK_DEADLOCK FALSE
