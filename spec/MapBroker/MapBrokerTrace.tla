--------------------------- MODULE MapBrokerTrace ---------------------------
(* Trace validation (code -> spec): events recorded from the real MemoryMapBroker
   by harness/mapbroker `trace` are consumed one per step by the actions of
   MapBroker with the logged results bound to the primed variables.  The broker's
   sweepers run on their own goroutines and are not logged: SweepExpire,
   SweepRemove, ExpirePhase1 and ExpirePhase2 are composed as silent steps,
   bounded by the model's own deadlines (operations may fall between the two
   phases of a key sweep).  "Peek" events are read-only snapshots of the channel
   (no TTL touched) and pin the state the silent steps must have produced.
   Many traces are concatenated, each starts with a "Cfg" event and ends with
   "Reset".  Every invariant and action property is evaluated on the way. *)
EXTENDS MapBroker, Json, IOUtils

Trace == ndJsonDeserialize("trace.ndjson")

VARIABLE l
tvars == <<vars, l>>

Ev == Trace[l]
IsEvent(e) == l <= Len(Trace) /\ Ev.ev = e /\ l' = l + 1

Cas(c) == [has |-> c.has, off |-> c.off, ep |-> c.ep]
UpdRes(r) == [err |-> r.err, sup |-> r.sup, off |-> r.off, ep |-> r.ep, cur |-> r.cur]

TCfg ==
  /\ IsEvent("Cfg") /\ step.act = "Init"
  /\ cf' = [mode |-> Ev.cf.mode, ord |-> Ev.cf.ord, kttl |-> Ev.cf.kttl, size |-> Ev.cf.size, sttl |-> Ev.cf.sttl, mttl |-> Ev.cf.mttl]
  /\ UNCHANGED <<chEx, chOrd, st, top, win, ep, epc, expAt, expQ, remAt, remQ, idem, iq, gidem, nkc, pend, now, npub, nops, bc>>
  /\ step' = [act |-> "Cfg"]

TTick == IsEvent("Tick") /\ Tick /\ now' = Ev.now

TPublish ==
  /\ IsEvent("Publish")
  /\ LET a == Ev.args IN
       /\ a.id = npub + 1
       /\ Publish(a.key, a.km, Cas(a.cas), a.v, a.ve, a.ik, a.ittl, a.sc)
  /\ step'.res = UpdRes(Ev.res)
  /\ bc' = Ev.bc

TRemove ==
  /\ IsEvent("Remove")
  /\ LET a == Ev.args IN RemoveKey(a.key, Cas(a.cas), a.ik, a.ittl)
  /\ step'.res = UpdRes(Ev.res)
  /\ bc' = Ev.bc

TClear == IsEvent("Clear") /\ Clear

TReadState ==
  /\ IsEvent("ReadState")
  /\ LET a == Ev.args IN
       ReadState([has |-> a.cur.has, sc |-> a.cur.sc, k |-> a.cur.k], a.limit, a.asc, a.key, [has |-> a.rev.has, ep |-> a.rev.ep])
  /\ LET r == Ev.res IN
       /\ step'.res.err = r.err /\ step'.res.off = r.off /\ step'.res.ep = r.ep
       /\ ~r.err => (/\ step'.res.pubs = r.pubs
                     /\ step'.res.next = [has |-> r.next.has, sc |-> r.next.sc, k |-> r.next.k])

TReadStream ==
  /\ IsEvent("ReadStream")
  /\ LET a == Ev.args IN ReadStream([has |-> a.since.has, off |-> a.since.off, ep |-> a.since.ep], a.limit, a.reverse)
  /\ LET r == Ev.res IN
       /\ step'.res.err = r.err
       /\ ~r.err => (step'.res.pubs = r.pubs /\ step'.res.off = r.off /\ step'.res.ep = r.ep)

\* read-only snapshot: nothing changes, the model must be where the code is
TPeek ==
  /\ IsEvent("Peek")
  /\ chEx = Ev.chEx
  /\ DOMAIN st = {Ev.keys[i] : i \in 1..Len(Ev.keys)}
  /\ top = Ev.top /\ win = Ev.win
  /\ \A i \in 1..Len(Ev.keys) : st[Ev.keys[i]].off = Ev.offs[i] /\ st[Ev.keys[i]].id = Ev.ids[i]
  /\ UNCHANGED vars

TSilent == (SweepExpire \/ SweepRemove \/ SweepIdem \/ ExpirePhase1 \/ ExpirePhase2 \/ ExpireDeliver) /\ UNCHANGED l

TReset ==
  /\ IsEvent("Reset")
  /\ chEx' = FALSE /\ chOrd' = FALSE /\ st' = Empty /\ top' = 0 /\ win' = <<>> /\ ep' = 0 /\ epc' = 0
  /\ expAt' = 0 /\ expQ' = 0 /\ remAt' = 0 /\ remQ' = 0
  /\ idem' = Empty /\ iq' = {} /\ gidem' = Empty /\ nkc' = 0 /\ pend' = <<>>
  /\ hq = <<>>
  /\ now' = 0 /\ npub' = 0 /\ nops' = 0 /\ bc' = <<>>
  /\ UNCHANGED cf
  /\ step' = [act |-> "Init"]

TraceInit ==
  /\ cf = Cfg("per", FALSE, 0, 1, 1, 0)
  /\ chEx = FALSE /\ chOrd = FALSE /\ st = Empty /\ top = 0 /\ win = <<>> /\ ep = 0 /\ epc = 0
  /\ expAt = 0 /\ expQ = 0 /\ remAt = 0 /\ remQ = 0
  /\ idem = Empty /\ iq = {} /\ gidem = Empty /\ nkc = 0 /\ pl = FALSE /\ hq = <<>> /\ sub = {} /\ pend = <<>>
  /\ now = 0 /\ npub = 0 /\ nops = 0 /\ bc = <<>>
  /\ step = [act |-> "Init"]
  /\ l = 1 /\ TLCSet(1, 0)
TraceNext == TCfg \/ TTick \/ TPublish \/ TRemove \/ TClear \/ TReadState \/ TReadStream \/ TPeek \/ TSilent \/ TReset
TraceSpec == TraceInit /\ [][TraceNext /\ (IF l' = l + 1 /\ Trace[l].ev = "Peek" THEN TRUE ELSE Frame)]_tvars

\* high-water mark of the consumed prefix (silent steps make the diameter useless); -workers 1
HighWater == TLCSet(1, IF TLCGet(1) < l - 1 THEN l - 1 ELSE TLCGet(1))
TraceAccepted ==
  IF TLCGet(1) = Len(Trace) THEN TRUE
  ELSE /\ PrintT(<<"TRACE-PREFIX", TLCGet(1), "of", Len(Trace)>>)
       /\ FALSE

TraceView == <<core, npub, nops, l>>

\* Cfg, Reset and Peek steps are exempt from the step-to-step properties
NotAdmin == step'.act \notin {"Init", "Cfg"} /\ ~(l' = l + 1 /\ Trace[l].ev = "Peek")
T_CheckOrder == [][NotAdmin =>
  ((step'.act = "Publish" /\ ~step'.res.err /\ step'.res.sup # "idempotency") =>
     LET a == step'.args
         e1 == IF chEx THEN ep ELSE epc + 1
     IN step'.res.sup =
          (IF WouldVersion(a.key, a.v, a.ve) THEN "version"
           ELSE IF WouldKeyMode(a.key, a.km) THEN (IF a.km = "if_exists" THEN "key_not_found" ELSE "key_exists")
           ELSE IF WouldCas(a.key, a.cas, e1) THEN "position_mismatch" ELSE ""))]_tvars
T_SuppressedChangesNothing == [][NotAdmin =>
  (Supp => (bc' = <<>> /\ <<top, win, idem>>' = <<top, win, idem>> /\ DOMAIN st' = DOMAIN st))]_tvars
T_AppliedAppendsAndBroadcastsOnce == [][NotAdmin =>
  (Applied =>
     LET entry == [off |-> step'.res.off, key |-> step'.args.key, rm |-> step'.act = "Remove",
                   id |-> IF step'.act = "Publish" THEN step'.args.id ELSE 0]
     IN bc' = <<entry>> /\ (HasStream => (top' = top + 1 /\ step'.res.off = top + 1 /\ win'[Len(win')] = entry)))]_tvars
T_NeverLostNeverTwice == [][NotAdmin =>
  (/\ \A k \in DOMAIN st \ DOMAIN st' :
        \/ step'.act \in {"Clear", "SweepRemove"}
        \/ (step'.act \in {"Remove", "ExpirePhase2"} /\ Len(bc') = 1 /\ bc'[1].rm /\ bc'[1].key = k)
   /\ \A i \in 1..Len(bc') : bc'[i].rm => (bc'[i].key \in DOMAIN st /\ bc'[i].key \notin DOMAIN st'))]_tvars
T_IdemExact == [][NotAdmin =>
  ((IsWrite /\ ~step'.res.err) =>
     /\ (step'.res.sup = "idempotency") <=> GhostHit(step'.args.ik)
     /\ (step'.res.sup = "idempotency") =>
           (step'.res.off = gidem[step'.args.ik].off /\ step'.res.ep = gidem[step'.args.ik].ep))]_tvars
T_EpochStable == [][NotAdmin => ((chEx /\ chEx') => (ep' = ep /\ top' >= top))]_tvars
=============================================================================
