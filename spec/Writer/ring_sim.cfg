SPECIFICATION SimSpec
CONSTANTS
  InitCaps = {1, 2, 3, 4}
  MaxItems = 60
  Batches <- BatchesStd
  BufLens = {1, 2, 8}
  ByteSizes = {0, 1, 2, 5}
  ManyLens = {0, 1, 2, 3, 5, 9}
INVARIANTS Refines LenSizeCap
PROPERTIES ReturnsFifoPrefix
CHECK_DEADLOCK FALSE
