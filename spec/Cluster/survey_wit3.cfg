SPECIFICATION Spec
CONSTANTS
  Nodes = {"n2"}
  Extra = {}
  MaxSurveys = 2
  MaxDeliver = 2
  LocalModes = {"sync"}
  DupOK = FALSE
  Causal = TRUE
  LocalSend = "nonblocking"
VIEW View
PROPERTIES WitOverlap
CHECK_DEADLOCK FALSE
