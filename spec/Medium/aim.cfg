SPECIFICATION AimSpec
CONSTANTS
  Subs = {"p1", "p2", "n"}
  OptSets <- OptAll
  MaxPub = 4
  MaxFaults = 1
  MaxTicks = 8
  MaxResub = 0
  QMax = 1
  Timed = TRUE
  CheckDelay = 40
  Advances = {12, 38, 50}
  MaxNow = 1000
  Urgent = TRUE
INVARIANTS TypeOK InOrder GapFree Bracketed
PROPERTIES TickOneExact StampMoves
CHECK_DEADLOCK FALSE
