SPECIFICATION Spec
CONSTANTS
  Chunks = 16
  KStride <- ThoroughStride
  StartKs = {1, 2, 3, 5, 6, 7, 16, 100, 1000, 4096}
INVARIANT Sane
CHECK_DEADLOCK FALSE
