"""C39 -- spec/Merge: transcription of MergePublications, property checked by TLC over the whole bounded
input space, (input, expected) table replayed into the real function."""
from lib import vf


def c39(c):
    cfg = 'quick.cfg' if c.tier == 'quick' else 'thorough.cfg'
    r = c.tlc_exhaustive('Merge', 'Merge', cfg, dump=True, timeout=1200)
    rows = c.dump_states(r)
    c.log('TLC: %d inputs enumerated, property holds on the transcription' % len(rows))
    binp = c.go_build('merge')
    res = c.harness(binp, 'table', rows)
    c.absorb(res)
    c.cov['traces_validated_against_impl'] = res['completed']
    c.cov['evaluations'] = res['executed']
    c.cov['distinct_nontrivial'] = res['nontrivial']
    c.cov['exhaustive'] = True
    c.cov['rule'] = ('every pair (recovered, buffered) of publication lists of length <= MaxLen over offsets 1..MaxOff x filtered flag, '
                     'enumerated by TLC (%s); non-trivial = buffered non-empty and at least two publications in total' % cfg)
    c.cov['samples'] = res['samples']
    c.assumptions += ['sort.Slice instability does not matter: duplicates of one offset are interchangeable',
                      'bounded: list length and offset range as in spec/Merge/%s' % cfg]


CHECKS = {'C39': c39}

META = {'C39': dict(
    level='model_checking',
    text='The merge function is transcribed into TLA+ step by step; TLC checks the stated property (sorted union, no duplicates, no placeholders, failure iff buffered present and an uncovered hole) over every pair of bounded input lists, and every enumerated row (input, expected result) is replayed into the real recovery.MergePublications, including identity of the returned publications. Exhaustive within the bounds, which exceed what the phenomenon needs (a hole needs two publications and one placeholder).',
    note='Bounds: lists of length <=2 (quick) / <=3 (thorough) over offsets 1..4 x filtered flag. Trusted: TLC, the TLA+ value parser in lib/tlaparse.py, the harness comparison code.',
    technique='TLA+ transcription + TLC exhaustive enumeration; function-table replay into the Go function',
    design_ref='DESIGN.md 4.4, 8 (C39)')}
