SPECIFICATION Spec
CONSTANTS
  MaxPub = 4
  HistSize = 2
  MaxFaults = 2
  MaxSess = 3
  Kinds = {"plain", "nohist"}
  Filts = {FALSE, TRUE}
  Meds = {FALSE, TRUE}
  AllowClear = TRUE
  DeltaOpts = {TRUE, FALSE}
  PayKinds = {"sim"}
  AsCoded = FALSE
  Withhold = FALSE
VIEW View
INVARIANTS TypeOK C14 HeldIsLast
CHECK_DEADLOCK FALSE
