// C05 on the shared-poll track path: replay of spec/SharedPoll/TrackClose behaviours. The track command runs on its
// own goroutine and is parked where application callbacks give a natural gate: inside the OnTrack handler
// ("ontrack"), inside Config.SharedPoll.GetSharedPollChannelOptions called by the track callback ("options") and
// inside Node.OnCommandProcessed for the sub-refresh reply ("processed", between the reply and the keyed-hub join).
// Close (the transport's close function) or a client unsubscribe run to completion while it is parked.
// Judged by observable behaviour after everything was released and settled: once the connection / subscription has
// ended the OnSharedPoll backend must no longer be asked for the channel's keys (calls counted over 10 refresh
// intervals), Node.Hub() must be empty after a close; SharedPollManager / keyed hub contents (overlay accessor) are
// attached as evidence.
package main

import (
	"context"
	"encoding/json"
	"fmt"
	"strings"
	"sync"
	"sync/atomic"
	"time"

	"github.com/centrifugal/centrifuge"
	"github.com/centrifugal/protocol"

	"verifharness/cl"
	"verifharness/vh"
)

const tcInterval = 20 * time.Millisecond

type tcRunner struct {
	env   *cl.Env
	ch    string
	mu    sync.Mutex
	armed map[string]*cl.Gate // gate name -> gate (one-shot, armed per track command)
	trGid int64
	polls atomic.Int64
}

func (r *tcRunner) gate(name string) {
	r.mu.Lock()
	g := r.armed[name]
	mine := r.trGid == goid()
	if g != nil && mine {
		delete(r.armed, name)
	}
	r.mu.Unlock()
	if g != nil && mine {
		g.Arrive(8 * time.Second)
	}
}

func newTCRunner(bi int) (*tcRunner, error) {
	r := &tcRunner{ch: fmt.Sprintf("sptc%d_%d", vh.Seed(), bi), armed: map[string]*cl.Gate{}}
	opts := centrifuge.SharedPollChannelOptions{Mode: centrifuge.SharedPollModeVersioned, KeepLatestData: true, RefreshInterval: tcInterval,
		ChannelShutdownDelay: time.Hour, CallTimeout: time.Second}
	env, err := cl.NewEnv(centrifuge.Config{
		LogLevel: centrifuge.LogLevelNone,
		SharedPoll: centrifuge.SharedPollConfig{GetSharedPollChannelOptions: func(ch string) (centrifuge.SharedPollChannelOptions, bool) {
			if ch == r.ch {
				r.gate("options")
			}
			return opts, strings.HasPrefix(ch, "sptc")
		}},
	})
	if err != nil {
		return nil, err
	}
	r.env = env
	env.OnSubscribe = func(_ *centrifuge.Client, _ centrifuge.SubscribeEvent, cb centrifuge.SubscribeCallback) {
		cb(centrifuge.SubscribeReply{ClientSideRefresh: true}, nil)
	}
	env.Setup = func(c *centrifuge.Client) {
		c.OnTrack(func(_ centrifuge.TrackEvent, cb centrifuge.TrackCallback) {
			r.gate("ontrack")
			cb(centrifuge.TrackReply{}, nil)
		})
		c.OnSubRefresh(func(_ centrifuge.SubRefreshEvent, cb centrifuge.SubRefreshCallback) { cb(centrifuge.SubRefreshReply{}, nil) })
	}
	env.Node.OnCommandProcessed(func(_ *centrifuge.Client, e centrifuge.CommandProcessedEvent) {
		// only the successful track reply: that is the point between the reply and the keyed-hub join
		if e.Command != nil && e.Command.SubRefresh != nil && e.Error == nil && e.Reply != nil && e.Reply.Error == nil {
			r.gate("processed")
		}
	})
	env.Node.OnSharedPoll(func(_ context.Context, ev centrifuge.SharedPollEvent) (centrifuge.SharedPollResult, error) {
		if ev.Channel == r.ch {
			r.polls.Add(1)
		}
		res := centrifuge.SharedPollResult{}
		for _, it := range ev.Items {
			res.Items = append(res.Items, centrifuge.SharedPollRefreshItem{Key: it.Key, Version: 1, Data: []byte(`{"v":1}`)})
		}
		return res, nil
	})
	if err := env.Run(); err != nil {
		return nil, err
	}
	return r, nil
}

func (r *tcRunner) run(bi int, beh []map[string]any, res *vh.Result) {
	defer r.env.Close()
	var steps []any
	drift := func(what string) {
		res.Drift("C05", fmt.Sprintf("keyed track/close: %s (behaviour %d)", what, bi), map[string]any{"steps": steps})
	}
	conn, err := newKConn(r.env, "u", centrifuge.ProtocolTypeJSON)
	if err != nil || conn.Connect() == nil {
		drift("connect failed")
		res.Done(1, 0)
		return
	}
	subscribe := func() bool {
		id := conn.NextID()
		conn.Do(&protocol.Command{Id: id, Subscribe: &protocol.SubscribeRequest{Channel: r.ch, Type: int32(centrifuge.SubscriptionTypeSharedPoll)}})
		rep := conn.WaitReply(id, 3*time.Second)
		return rep != nil && rep.Subscribe != nil
	}
	if !subscribe() {
		drift("subscribe failed")
		res.Done(1, 0)
		return
	}
	var gOn, gOpt, gProc *cl.Gate
	var trDone chan struct{}
	parkedAt, endedAt, endKind := "", "", ""
	closedConn := false
	ok := true
	release := func() {
		for _, g := range []*cl.Gate{gOn, gOpt, gProc} {
			if g != nil {
				g.Release()
			}
		}
	}
	defer release()
	for si := 1; si < len(beh) && ok; si++ {
		step := vh.Map(beh[si]["step"])
		act := vh.Str(step["act"])
		steps = append(steps, step)
		tr := vh.Map(beh[si]["tr"])
		switch act {
		case "TVal":
			gOn, gOpt, gProc = cl.NewGate(), cl.NewGate(), cl.NewGate()
			trDone = make(chan struct{})
			started := make(chan struct{})
			go func(done chan struct{}) {
				defer close(done)
				r.mu.Lock()
				r.trGid = goid()
				r.armed = map[string]*cl.Gate{"ontrack": gOn, "options": gOpt, "processed": gProc}
				r.mu.Unlock()
				close(started)
				id := conn.NextID()
				conn.Do(&protocol.Command{Id: id, SubRefresh: &protocol.SubRefreshRequest{Channel: r.ch, Type: 1,
					Track: []*protocol.TrackBatch{{Items: []*protocol.KeyedItem{{Key: "k1"}}}}}})
			}(trDone)
			<-started
			if !gOn.WaitArrived(4 * time.Second) {
				drift("track did not reach the OnTrack handler")
				ok = false
			}
			parkedAt = "ontrack"
		case "TEnter":
			gOn.Release()
			if vh.Str(tr["pc"]) == "opts" {
				if !gOpt.WaitArrived(4 * time.Second) {
					// code that re-validates at the top of the callback may have refused already: the command is over
					select {
					case <-trDone:
						parkedAt = ""
					case <-time.After(2 * time.Second):
						drift("track reached neither GetSharedPollChannelOptions nor its end")
						ok = false
					}
				} else {
					parkedAt = "options"
				}
			}
		case "TOpts":
			gOpt.Release()
		case "TMgr", "TCommit":
		case "TReply":
			// the command goes on to the reply (gate) or ends with an error
			arrived := make(chan bool, 1)
			go func() { arrived <- gProc.WaitArrived(4 * time.Second) }()
			select {
			case a := <-arrived:
				if a {
					parkedAt = "command-processed"
				}
			case <-trDone:
				parkedAt = ""
			}
		case "TJoin":
			gProc.Release()
			select {
			case <-trDone:
			case <-time.After(4 * time.Second):
				drift("track command did not finish")
				ok = false
			}
			parkedAt = ""
		case "EndA":
			endKind = vh.Str(step["kind"])
			if parkedAt != "" {
				endedAt = parkedAt
			} else if endedAt == "" {
				endedAt = "not-parked"
			}
			if endKind == "close" {
				_ = conn.CloseF()
				closedConn = true
			} else {
				// the reader goroutine is parked in the track command: the unsubscribe arrives on another goroutine,
				// like a server-side Client.Unsubscribe
				conn.Client.Unsubscribe(r.ch)
			}
		case "EndB":
		case "Resub":
			if !subscribe() {
				drift("resubscribe failed")
				ok = false
			}
		default:
			drift("unknown action " + act)
			ok = false
		}
	}
	// the behaviour may end with the command still parked: let it finish
	release()
	if trDone != nil {
		select {
		case <-trDone:
		case <-time.After(4 * time.Second):
			drift("track command did not finish after release")
			ok = false
		}
	}
	if !ok {
		res.Done(1, 0)
		return
	}
	// ---- settle and observe
	subscribed := false
	if !closedConn {
		for _, c := range conn.Client.Channels() {
			if c == r.ch {
				subscribed = true
			}
		}
	}
	time.Sleep(3 * tcInterval)
	before := r.polls.Load()
	time.Sleep(10 * tcInterval)
	calls := r.polls.Load() - before
	polled, hubKeys, hubSubs := centrifuge.VerifKeyedStats(r.env.Node, r.ch)
	connKeys := centrifuge.VerifClientTrackedKeys(conn.Client, r.ch)
	ev := map[string]any{"steps": steps, "ended": endKind, "parked_at": endedAt, "backend_calls_in_10_intervals": calls,
		"polled_keys": polled, "connection_tracked_keys": connKeys, "keyed_hub_keys": hubKeys, "keyed_hub_subscribers": hubSubs,
		"hub_clients": r.env.Node.Hub().NumClients(), "hub_subscriptions": r.env.Node.Hub().NumSubscriptions()}
	if !subscribed {
		sig := "keyed-track-survives-" + map[bool]string{true: "close", false: "unsubscribe"}[closedConn] + ":" + endedAt
		if calls > 0 {
			res.Violate("C05", sig, fmt.Sprintf("the %s completed while the track command was parked at %q; afterwards the OnSharedPoll backend was still asked %d times in 10 refresh intervals for keys of the channel (SharedPollManager keys %d, keyed hub subscribers %d) (behaviour %d)",
				map[bool]string{true: "connection close", false: "unsubscribe"}[closedConn], endedAt, calls, polled, hubSubs, bi), ev)
		} else if connKeys > 0 {
			res.Violate("C05", sig, fmt.Sprintf("after the end of the subscription (track parked at %q) the connection's keyed state still tracks %d key(s) of the channel: the track committed on a subscription that no longer exists (behaviour %d)", endedAt, connKeys, bi), ev)
		} else if hubSubs > 0 || polled > 0 {
			res.Violate("C05", sig, fmt.Sprintf("after the end of the subscription (track parked at %q) the keyed hub holds %d subscriber(s) and the SharedPollManager %d key(s) of the channel (behaviour %d)", endedAt, hubSubs, polled, bi), ev)
		}
		if closedConn && (r.env.Node.Hub().NumClients() != 0 || r.env.Node.Hub().NumSubscriptions() != 0) {
			res.Violate("C05", "keyed-close-leaves-hub-entries", fmt.Sprintf("after close Node.Hub() has %d clients / %d subscriptions (behaviour %d)", r.env.Node.Hub().NumClients(), r.env.Node.Hub().NumSubscriptions(), bi), ev)
		}
	}
	if !closedConn {
		_ = conn.CloseF()
	}
	conn.Cancel()
	res.Distinct(vh.J(steps))
	if bi < 1 {
		res.Sample(ev)
	}
	res.Done(1, 1)
}

type tcIn struct {
	Behaviours [][]map[string]any `json:"behaviours"`
}

func trackCloseMode(in json.RawMessage, res *vh.Result) error {
	var ti tcIn
	if err := json.Unmarshal(in, &ti); err != nil {
		return err
	}
	jobs := make(chan int)
	var wg sync.WaitGroup
	for i := 0; i < 6; i++ {
		wg.Add(1)
		go func() {
			defer wg.Done()
			for bi := range jobs {
				r, err := newTCRunner(bi)
				if err != nil {
					res.Drift("C05", "node setup: "+err.Error(), nil)
					res.Done(1, 0)
					continue
				}
				r.run(bi, ti.Behaviours[bi], res)
			}
		}()
	}
	for bi := range ti.Behaviours {
		jobs <- bi
	}
	close(jobs)
	wg.Wait()
	return nil
}
