------------------------------ MODULE RingSim ------------------------------
(* Behaviour generator for the replay of spec/Writer/Ring.tla into the real
   internal/queue (TLC -simulate).  Same actions as Ring; every operation class
   contributes a fixed number of successors (slot variable `w`), arguments come
   from a hash of slot and state (see MemBrokerSim.tla for why).  The delayed
   shrink is generated only in two deterministic shapes: FinishCollect(long),
   which arms a timer that does not fire within the behaviour, and
   FinishCollectFire = FinishCollect(short) followed at once by the timer
   callback, generated only when the shrink has an observable effect (so the
   harness can wait for exactly that effect instead of sleeping and hoping).  *)
EXTENDS Ring

VARIABLE w
simvars == <<vars, w>>

BatchQ == <<-1, 1, 2, 3, -1, 2, 5, 1>>
BufQ   == <<1, 2, 3, 4, 8, 16, 16, 16>>
ByteQ  == <<1, 2, 0, 5, 1, 3, 2>>
LenQ   == <<0, 1, 2, 3, 5, 9, 2, 3, 17>>

H(s) == (s * 7919 + nextid * 10473 + cnt * 12983 + head * 15487 + Cap * 32452 + size * 4999) % 1000003   \* (TLC integers are 32 bit)
Sel(q, h, d) == q[((h \div d) % Len(q)) + 1]

SimAdd(s) == Add(Sel(ByteQ, H(s), 3))
SimAddMany(s) ==
  LET h == H(s + 50)  n == Sel(LenQ, h, 5)
  IN AddMany([i \in 1..n |-> Sel(ByteQ, h + i * 31, 7)])
SimRemoveMany(s) == RemoveMany(Sel(BatchQ, H(s + 100), 3))
SimRemoveManyInto(s) == LET h == H(s + 200) IN RemoveManyInto(Sel(BufQ, h, 11), Sel(BatchQ, h, 3))
SimRemoveManyIntoShrink(s) == LET h == H(s + 300) IN RemoveManyIntoShrink(Sel(BufQ, h, 11), Sel(BatchQ, h, 3))

FinishCollectFire ==
  /\ ~closed /\ RDoShrink(R) # R
  /\ SetRing(RDoShrink(R)) /\ armed' = FALSE
  /\ UNCHANGED <<closed, initCap, late, fifo, nextid>>
  /\ step' = [act |-> "FinishCollectFire"]

SimNext ==
  \/ \E s \in 1..6 : SimAdd(s) /\ w' = s
  \/ \E s \in 1..3 : SimAddMany(s) /\ w' = s
  \/ \E s \in 1..3 : Remove /\ w' = s
  \/ \E s \in 1..2 : SimRemoveMany(s) /\ w' = s
  \/ \E s \in 1..2 : SimRemoveManyInto(s) /\ w' = s
  \/ \E s \in 1..2 : SimRemoveManyIntoShrink(s) /\ w' = s
  \/ \E s \in 1..2 : FinishCollect(FALSE) /\ w' = s
  \/ FinishCollect(TRUE) /\ w' = 0
  \/ \E s \in 1..2 : FinishCollectFire /\ w' = s
  \/ WaitNB /\ w' = 0
  \/ nextid > 30 /\ CloseQ /\ late' = FALSE /\ w' = 0
  \/ nextid > 30 /\ CloseRemaining /\ late' = FALSE /\ w' = 0

SimSpec == Init /\ w = 0 /\ [][SimNext]_simvars
=============================================================================
