"""C12, C40, C42 -- family `writer`: spec/Writer (Ring, Writer, WriterTrace), spec/Dissolve, spec/Pools bound to
internal/queue, writer.go, internal/dissolve, internal/bpool through harness/writer + overlay/writer.
(docstring completed at the end of the file's development: see MUTATIONS below)"""
import json
import os

from lib import vf

# development aid (mutation testing): skip the exhaustive design runs, which do not depend on the code under test
_FAST = os.environ.get('VERIF_WRITER_FAST') == '1'


# ------------------------------------------------------------------------------------------------ C12
def _ring_states(beh):
    out = []
    for st in beh:
        nodes = st['nodes']
        cap = len(nodes) if isinstance(nodes, (dict, list)) else 0
        out.append({'step': st['step'], 'head': st['head'], 'tail': st['tail'], 'cnt': st['cnt'], 'size': st['size'],
                    'cap': cap, 'closed': st['closed'], 'initCap': st['initCap']})
    return out


def _validate_traces(c, family, module, cfg, traces, on_reject, reset=None, timeout=900):
    """Validates many traces in one TLC run (concatenated); on rejection isolates the rejected trace, reports it
    through on_reject(trace_index, trace, matched_prefix, info) and continues with the rest. Returns #accepted."""
    accepted = 0
    base = 0
    remaining = list(traces)
    for _round in range(8):
        events, bounds = [], []
        for t in remaining:
            events += t
            if reset is not None:
                events.append(reset)
            bounds.append(len(events))
        if not events:
            break
        ok, info = c.validate_trace(family, module, cfg, events, timeout=timeout)
        if ok:
            accepted += len(remaining)
            remaining = []
            break
        pref = info.get('matched_prefix', 0)
        bad_i = next((i for i, b in enumerate(bounds) if pref < b), len(remaining) - 1)
        t = remaining[bad_i]
        ok1, info1 = c.validate_trace(family, module, cfg, t + ([reset] if reset is not None else []), timeout=300)
        if ok1:
            raise vf.Inconclusive('batch of traces rejected but the single trace is accepted: %s' % info)
        on_reject(base + bad_i, t, info1.get('matched_prefix', 0), info1)
        accepted += bad_i
        base += bad_i + 1
        remaining = remaining[bad_i + 1:]
    if remaining:
        c.notes.append('more than 8 rejected traces; %d traces left unvalidated' % len(remaining))
    return accepted


def c12(c):
    quick = c.tier == 'quick'
    # 1. design: the concrete ring refines the FIFO (exhaustive), the writer over the FIFO delivers exactly
    if not _FAST:
        r = c.tlc_exhaustive('Writer', 'Ring', 'ring_quick.cfg' if quick else 'ring_thorough.cfg', workers=4, timeout=1500)
        c.log('Ring: %d distinct / %d generated states' % (r['distinct'], r['states']))
        r = c.tlc_exhaustive('Writer', 'Writer', 'writer_quick.cfg' if quick else 'writer_thorough.cfg', workers=4, timeout=2400)
        c.log('Writer: %d distinct / %d generated states, depth %d' % (r['distinct'], r['states'], r['depth']))
    if not quick and not _FAST:
        r = c.tlc_exhaustive('Writer', 'Writer', 'writer_live.cfg', workers=4, timeout=2400)
        c.log('Writer liveness (FairSpec): %d distinct states' % r['distinct'])
    binp = c.go_build('writer')
    # 2. S: simulated operation sequences of the ring replayed into internal/queue
    nb = 150 if quick else 1500
    s = c.tlc('Writer', 'RingSim', 'ring_sim.cfg', simulate=nb, depth=50, timeout=900)
    if not s['ok']:
        raise vf.Inconclusive('RingSim simulation failed: %s' % s['out'][-2000:])
    behs = [_ring_states(b) for b in c.behaviours(s)]
    c.log('RingSim: %d behaviours' % len(behs))
    res = c.harness(binp, 'ring', behs, timeout=600)
    c.absorb(res)
    c.cov['traces_validated_against_impl'] += res['completed']
    c.cov['evaluations'] += res['counters'].get('ring_ops', 0)
    c.cov['distinct_nontrivial'] += res['nontrivial']
    c.cov['samples'] += res['samples'][:1]
    c.cov['ring_replay'] = {'behaviours': res['executed'], 'completed': res['completed'], 'ops': res['counters'].get('ring_ops', 0),
                            'nontrivial': res['nontrivial']}
    # 3. T: the real writer under 2 producers + closer; monitor in the harness, traces to TLC
    nruns = 1500 if quick else 12000
    ntr = 60 if quick else 400
    wr = c.harness(binp, 'writer', {'n': nruns, 'traces': ntr, 'parallel': 8}, timeout=900)
    c.absorb(wr)
    c.cov['evaluations'] += wr['executed']
    c.cov['distinct_nontrivial'] += wr['nontrivial']
    c.cov['writer_runs'] = {'runs': wr['executed'], 'clean': wr['completed'], 'counters': wr['counters'], 'nontrivial': wr['nontrivial']}
    traces = wr['extra']['traces']
    scen = wr['extra']['trace_scenarios']

    def rejected(i, t, k, info):
        ev = t[k] if k < len(t) else None
        if 'violated' in (info.get('error') or ''):
            what = 'recorded execution of the writer violates %s at event %d: %s' % (info['error'], k, ev)
        else:
            what = ('recorded execution of the writer is not a behaviour of spec/Writer: event %d %s cannot follow the matched prefix '
                    '(scenario %s)' % (k, json.dumps(ev), json.dumps(scen[i])))
        c.violation('trace:%s:%s' % (ev.get('ev') if ev else '?', scen[i]['mode']), what, {'scenario': scen[i], 'trace': t, 'matched_prefix': k})

    acc = _validate_traces(c, 'Writer', 'WriterTrace', 'writer_trace.cfg', traces, rejected)
    c.log('WriterTrace: %d of %d recorded traces accepted' % (acc, len(traces)))
    c.cov['traces_validated_against_impl'] += acc
    c.cov['trace_events'] = sum(len(t) for t in traces)
    if traces:
        c.cov['samples'].append({'recorded_trace': traces[0][:14]})
    c.cov['rule'] = ('ring: TLC -simulate of RingSim (ops/args by state hash) replayed into internal/queue, every op compared (items, ok, Len, Size; Cap/head/tail as drift); '
                     'non-trivial = behaviour with a grow while head>0 and a shrink with items left, distinct by operation list. '
                     'writer: seeded random scenarios (mode x delay x frame x maxq x initCap x shrink x close kind x transport fault), observable monitor on every run, '
                     'first N traces validated by TLC against WriterTrace; non-trivial = both producers interleaved in the delivered order and a batched frame, distinct by trace')
    c.assumptions += ['transport write functions are called with the items they must send; what the transport does with them is outside (C30/C32)',
                      'time is not modelled: sleeps/timers may end at any moment (the real executions are a subset)',
                      'ring: initial capacity >= 1 (newWriter maps 0 to 2); item payload sizes 0..5 bytes',
                      'a panic of the queue/writer is reported as a violation: the model prescribes a normal return with specific items']


# ------------------------------------------------------------------------------------------------ C40
def c40(c):
    quick = c.tier == 'quick'
    if not _FAST:
        r = c.tlc_exhaustive('Dissolve', 'Dissolve', 'quick.cfg' if quick else 'thorough.cfg', workers=4, timeout=1500)
        c.log('Dissolve safety: %d distinct / %d generated states' % (r['distinct'], r['states']))
        # liveness under fairness (no VIEW, no state constraint): Submitted ~> Succeeded \/ closed; workers exit after Close
        r = c.tlc_exhaustive('Dissolve', 'Dissolve', 'live.cfg' if quick else 'live_thorough.cfg', workers=4, timeout=2400)
        c.log('Dissolve liveness (FairSpec): %d distinct states' % r['distinct'])
    binp = c.go_build('writer')
    nruns = 1500 if quick else 12000
    ntr = 120 if quick else 800
    dr = c.harness(binp, 'dissolve', {'n': nruns, 'traces': ntr}, timeout=900)
    c.absorb(dr)
    c.cov['evaluations'] += dr['executed']
    c.cov['distinct_nontrivial'] += dr['nontrivial']
    c.cov['dissolve_runs'] = {'runs': dr['executed'], 'clean': dr['completed'], 'counters': dr['counters'], 'nontrivial': dr['nontrivial']}
    traces = dr['extra']['traces']
    scen = dr['extra']['trace_scenarios']

    def rejected(i, t, k, info):
        ev = t[k] if k < len(t) else None
        if 'violated' in (info.get('error') or ''):
            what = 'recorded execution of the dissolver violates %s at event %d: %s' % (info['error'], k, ev)
        else:
            what = ('recorded execution of the dissolver is not a behaviour of spec/Dissolve: event %d %s cannot follow the matched prefix '
                    '(scenario %s)' % (k, json.dumps(ev), json.dumps(scen[i])))
        c.violation('trace:%s' % (ev.get('ev') if ev else '?'), what, {'scenario': scen[i], 'trace': t, 'matched_prefix': k})

    acc = _validate_traces(c, 'Dissolve', 'DissolveTrace', 'trace.cfg', traces, rejected)
    c.log('DissolveTrace: %d of %d recorded traces accepted' % (acc, len(traces)))
    c.cov['traces_validated_against_impl'] += acc
    c.cov['trace_events'] = sum(len(t) for t in traces)
    c.cov['samples'] += dr['samples'][:1]
    c.cov['rule'] = ('seeded random scenarios (1-3 workers, 1-6 jobs failing 0-3 times, run durations, submits before/after Run, Close early or after quiescence, '
                     'Submit after Close); jobs log their own start/end; observable monitor on every run + bounded-time quiescence for the liveness clause; first N traces '
                     'validated by TLC against DissolveTrace; non-trivial = >1 worker, >1 job and at least one failed run, distinct by trace')
    c.assumptions += ['"runs until success" is demanded while the dissolver is open: Close discards queued jobs by design (documented in dissolve.go); StrongLiveness in Dissolve.tla states the absolute reading, TLC refutes it (strong.cfg)',
                      '"no job executed after close": a job a worker had dequeued before Close may still start (at most one per worker); no dequeue and no re-queue after Close',
                      'each job is submitted once; jobs fail a finite number of times',
                      'liveness on the real code is a bounded-time check (5 s; typical completion < 5 ms)']


# ------------------------------------------------------------------------------------------------ C42
def c42(c):
    quick = c.tier == 'quick'
    if not _FAST:
        r = c.tlc_exhaustive('Pools', 'Pools', 'quick.cfg' if quick else 'thorough.cfg', workers=4, timeout=1500)
        c.log('Pools (write/append/foreign/put): %d distinct / %d generated states' % (r['distinct'], r['states']))
        if not quick:
            r = c.tlc_exhaustive('Pools', 'Pools', 'reslice_bs.cfg', workers=4, timeout=1500)
            c.log('Pools bytes+slices with reslicing: %d distinct states' % r['distinct'])
        # model-level finding (rule 1): with reslicing before Put the item-buffer model violates GetOK; whether the real
        # code does is decided below by the replay (scripts with Reslice)
        r = c.tlc('Pools', 'Pools', 'reslice_items.cfg', workers=4, timeout=600, expect_violation=True)
        c.cov['model_counterexample_items_reslice'] = bool(r['error'] and 'GetOK' in r['error'])
        c.log('Pools items with reslicing: model %s' % ('violates GetOK (counterexample: Get, Write, Reslice shorter, Put, Get)' if c.cov['model_counterexample_items_reslice'] else 'holds'))
    binp = c.go_build('writer')
    # size-class transcription vs the three real implementations
    t = c.tlc_exhaustive('Pools', 'PoolsTable', 'table.cfg', dump=True, workers=2, timeout=300)
    rows = [{k: st[k] for k in ('tk', 'tv', 'tnext', 'tprev')} for st in c.dump_states(t)]
    tr = c.harness(binp, 'classes', rows)
    c.absorb(tr)
    c.cov['evaluations'] += tr['executed']
    c.cov['class_table_rows'] = tr['executed']
    # scripts
    nb = 300 if quick else 3000
    s = c.tlc('Pools', 'PoolsSim', 'sim.cfg', simulate=nb, depth=40, timeout=900)
    if not s['ok']:
        raise vf.Inconclusive('PoolsSim simulation failed: %s' % s['out'][-2000:])
    behs = [[{'kind': st['kind'], 'step': st['step']} for st in b] for b in c.behaviours(s)]
    res = c.harness(binp, 'pools', behs, timeout=600)
    c.absorb(res)
    c.cov['traces_validated_against_impl'] += res['completed']
    c.cov['evaluations'] += res['counters'].get('pool_ops', 0)
    c.cov['distinct_nontrivial'] += res['nontrivial']
    c.cov['samples'] += res['samples'][:2]
    c.cov['pool_replay'] = {'scripts': res['executed'], 'clean': res['completed'], 'counters': res['counters']}
    hits = sum(v for k, v in res['counters'].items() if k.startswith('pool_hits_'))
    if hits == 0:
        c.drifts.append({'what': 'pools replay: no Get was served from a pool (sync.Pool dropped everything): the binding is vacuous'})
    c.cov['rule'] = ('TLC -simulate of PoolsSim (Get/Write/Append/Reslice/Foreign/Put with lengths around powers of two up to above the largest class), replayed into '
                     'GetByteBuffer/PutByteBuffer, GetByteSlicesBuf/PutByteSlicesBuf, getItemBuf/putItemBuf on one locked OS thread with GC off; after every Get: '
                     'cap >= n, len = 0 (items: len = n and all visible entries zero); pool hits counted by pointer identity; non-trivial = script with >= 2 Puts, distinct by ops')
    c.assumptions += ['lengths >= 0 (GetByteBuffer of a negative length is outside the statement)',
                      'users do not keep using a buffer after Put (aliasing after Put is outside the statement)',
                      'sync.Pool modelled as a bag that may lose or withhold anything; the replay cannot force a drop, it counts the hits it got']


# ------------------------------------------------------------------------------------------------ registry
CHECKS = {'C12': c12, 'C40': c40, 'C42': c42}

META = {
    'C12': dict(level='model_checking', text='placeholder', note='placeholder', technique='placeholder'),
    'C40': dict(level='model_checking', text='placeholder', note='placeholder', technique='placeholder'),
    'C42': dict(level='model_checking', text='placeholder', note='placeholder', technique='placeholder'),
}
