SPECIFICATION Spec
CONSTANTS
  Nodes = {"n2"}
  Extra = {}
  MaxSurveys = 1
  MaxDeliver = 3
  LocalModes = {"async"}
  DupOK = TRUE
  Causal = TRUE
  LocalSend = "nonblocking"
VIEW View
PROPERTIES WitLateLocalDrop
CHECK_DEADLOCK FALSE
