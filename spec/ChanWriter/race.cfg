SPECIFICATION Spec
CONSTANTS
  Keys = {"a"}
  NonPub = {}
  Sizes = {0}
  Delays = {TRUE}
  Lates = {FALSE}
  Threads = {1}
  MaxAdds = 1
  MaxEnds = 1
  AtomicAdd = FALSE
  ClosedRefuses = FALSE
  SplitGet = FALSE
  RecheckOnStore = TRUE
  StaleTimers = FALSE
VIEW View
INVARIANTS TypeOK
PROPERTIES NoOrphanFlush
CHECK_DEADLOCK FALSE
