package main

// Recording transport + connection helpers for both protocol types. (cl.Transport decodes Protobuf writes as
// length-prefixed streams, but a Transport receives one un-prefixed Reply per message - the length prefix is added
// by the real transports - so Protobuf connections need their own recorder; the API mirrors cl.Conn.)

import (
	"context"
	"fmt"
	"sync"
	"sync/atomic"
	"time"

	"github.com/centrifugal/centrifuge"
	"github.com/centrifugal/protocol"

	"verifharness/cl"
)

type kTransport struct {
	mu      sync.Mutex
	cond    *sync.Cond
	proto   centrifuge.ProtocolType
	replies []*protocol.Reply
	closed  bool
	disc    centrifuge.Disconnect
}

func newKTransport(proto centrifuge.ProtocolType) *kTransport {
	t := &kTransport{proto: proto}
	t.cond = sync.NewCond(&t.mu)
	return t
}

func (t *kTransport) Name() string                                { return "verif" }
func (t *kTransport) AcceptProtocol() string                      { return "" }
func (t *kTransport) Protocol() centrifuge.ProtocolType           { return t.proto }
func (t *kTransport) ProtocolVersion() centrifuge.ProtocolVersion { return centrifuge.ProtocolVersion2 }
func (t *kTransport) Unidirectional() bool                        { return false }
func (t *kTransport) Emulation() bool                             { return false }
func (t *kTransport) DisabledPushFlags() uint64                   { return 0 }
func (t *kTransport) PingPongConfig() centrifuge.PingPongConfig {
	return centrifuge.PingPongConfig{PingInterval: -1}
}

func (t *kTransport) decode(b []byte) []*protocol.Reply {
	data := append([]byte(nil), b...)
	var out []*protocol.Reply
	if t.proto == centrifuge.ProtocolTypeJSON {
		d := protocol.NewJSONReplyDecoder(data)
		for {
			r, err := d.Decode()
			if r != nil {
				out = append(out, r)
			}
			if err != nil {
				break
			}
		}
	} else {
		var r protocol.Reply
		if err := r.UnmarshalVT(data); err == nil {
			out = append(out, &r)
		}
	}
	if len(out) == 0 {
		out = append(out, &protocol.Reply{Error: &protocol.Error{Code: 999999, Message: fmt.Sprintf("undecodable: %q", string(data))}})
	}
	return out
}

func (t *kTransport) Write(b []byte) error { return t.WriteMany(b) }

func (t *kTransport) WriteMany(bs ...[]byte) error {
	var rs []*protocol.Reply
	for _, b := range bs {
		rs = append(rs, t.decode(b)...)
	}
	t.mu.Lock()
	defer t.mu.Unlock()
	if t.closed {
		return fmt.Errorf("verif: closed")
	}
	t.replies = append(t.replies, rs...)
	t.cond.Broadcast()
	return nil
}

func (t *kTransport) Close(d centrifuge.Disconnect) error {
	t.mu.Lock()
	if !t.closed {
		t.closed, t.disc = true, d
	}
	t.cond.Broadcast()
	t.mu.Unlock()
	return nil
}

func (t *kTransport) Closed() (bool, centrifuge.Disconnect) {
	t.mu.Lock()
	defer t.mu.Unlock()
	return t.closed, t.disc
}

func (t *kTransport) WaitFor(timeout time.Duration, pred func(rs []*protocol.Reply, closed bool) bool) bool {
	deadline := time.Now().Add(timeout)
	timer := time.AfterFunc(timeout, func() {
		t.mu.Lock()
		t.cond.Broadcast()
		t.mu.Unlock()
	})
	defer timer.Stop()
	t.mu.Lock()
	defer t.mu.Unlock()
	for {
		if pred(t.replies, t.closed) {
			return true
		}
		if time.Now().After(deadline) {
			return false
		}
		t.cond.Wait()
	}
}

type kConn struct {
	Client *centrifuge.Client
	T      *kTransport
	Cancel context.CancelFunc
	CloseF centrifuge.ClientCloseFunc
	nextID atomic.Uint32
}

func newKConn(env *cl.Env, user string, proto centrifuge.ProtocolType) (*kConn, error) {
	t := newKTransport(proto)
	ctx, cancel := context.WithCancel(context.Background())
	ctx = centrifuge.SetCredentials(ctx, &centrifuge.Credentials{UserID: user})
	c, closeFn, err := centrifuge.NewClient(ctx, env.Node, t)
	if err != nil {
		cancel()
		return nil, err
	}
	return &kConn{Client: c, T: t, Cancel: cancel, CloseF: closeFn}, nil
}

func (c *kConn) NextID() uint32 { return c.nextID.Add(1) }

func (c *kConn) Do(cmd *protocol.Command) bool { return c.Client.HandleCommand(cmd, 0) }

func (c *kConn) Connect() *protocol.Reply {
	id := c.NextID()
	c.Do(&protocol.Command{Id: id, Connect: &protocol.ConnectRequest{}})
	return c.WaitReply(id, 3*time.Second)
}

func (c *kConn) WaitReply(id uint32, timeout time.Duration) *protocol.Reply {
	var found *protocol.Reply
	c.T.WaitFor(timeout, func(rs []*protocol.Reply, closed bool) bool {
		for _, r := range rs {
			if r.Id == id {
				found = r
				return true
			}
		}
		return closed
	})
	return found
}

// Barrier sends an RPC and waits for its reply: every frame enqueued before it has then been written.
func (c *kConn) Barrier(timeout time.Duration) bool {
	id := c.NextID() + 1000000
	c.Do(&protocol.Command{Id: id, Rpc: &protocol.RPCRequest{Method: "barrier", Data: []byte("{}")}})
	return c.WaitReply(id, timeout) != nil
}

// Frames returns the written frames without barrier replies.
func (c *kConn) Frames() []*protocol.Reply {
	c.T.mu.Lock()
	defer c.T.mu.Unlock()
	out := make([]*protocol.Reply, 0, len(c.T.replies))
	for _, r := range c.T.replies {
		if r.Id > 1000000 && r.Rpc != nil {
			continue
		}
		out = append(out, r)
	}
	return out
}
