SPECIFICATION TraceSpec
CONSTANTS
  Keys = {"a", "b"}
  NonPub = {"join", "leave", "other"}
  Sizes = {0, 1, 2, 3, 4}
  Delays = {TRUE, FALSE}
  Lates = {TRUE, FALSE}
  Threads = {1, 2}
  MaxAdds = 1000000
  MaxEnds = 1000000
  AtomicAdd = FALSE
  ClosedRefuses = TRUE
  SplitGet = FALSE
  RecheckOnStore = TRUE
  StaleTimers = FALSE
VIEW TraceView
CONSTRAINT HighWater
INVARIANTS LatUnique PendingAgree TimerSane
PROPERTIES OrderPreserved LatestCoalesced EndFlushesAll EndDiscards SizeExact
POSTCONDITION TraceAccepted
CHECK_DEADLOCK FALSE
