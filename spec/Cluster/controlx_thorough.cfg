SPECIFICATION Spec
CONSTANTS
  Tier = "thorough"
INVARIANTS RoundTripIsIdentity SameTouched SameOutcome
CHECK_DEADLOCK FALSE
