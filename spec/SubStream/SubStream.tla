----------------------------- MODULE SubStream -----------------------------
(* Client-side subscribe to a stream channel racing with publications and
   PUB/SUB faults: client.go subscribeCmd (StartBuffering, addSubscription,
   history read / recovery, LockBufferAndReadBuffered + MergePublications,
   reply, commit, StopBuffering), writePublication / SyncPublication /
   writePublicationUpdatePosition, handleInsufficientState, the broker's
   stream (top, retained window, fixed epoch "e1") and the wire between broker
   and node (hold, reorder, drop, duplicate, foreign epoch, lag).

   Properties: C01 (gap-free / duplicate-free / ordered positioned delivery or
   an explicit insufficient-state end), C02 (stream recovery exact or refused),
   C10 (no publication push before the subscribe reply / after the end),
   C16 live + stream-recovery paths (tags filter enforced).

   Thread structure mirrors the gates the harness can hold on the real code
   through public interfaces (DESIGN 4.0): the subscriber goroutine parks in
   Broker.Subscribe (pc = "g1": hub entry exists, buffering started), before
   the broker's History call (pc = "g2"), after it (pc = "g3": history result
   read, buffer not yet locked).  From g3 to the end of subscribeCmd
   (lock+merge, reply, commit, unlock) the code holds pubBufferMu, a delivery
   in that window blocks and is observably the same as a delivery after the
   subscribe finished, so it is one action (SubFinish).                      *)
EXTENDS MergeOps, TLC

CONSTANTS
  MaxPub,        \* publishes per behaviour
  HistSize,      \* history size of the channel (retained window)
  MaxFaults,     \* budget of wire faults
  Kinds,         \* subscription kinds offered: subset of {"pos", "rec", "plain", "nohist"}
  RecLimit,      \* RecoveryMaxPublicationLimit (0 = none)
  MaxChecks,     \* periodic position checks per behaviour (Client.checkPosition on the presence tick; 0 = none)
  Servers,       \* subset of BOOLEAN: FALSE = client-side subscribe command, TRUE = server-side Client.Subscribe
  UrgentAsync    \* TRUE: a spawned insufficient-state goroutine runs before anything else (replay configs: the
                 \* goroutine cannot be parked without a hook); FALSE: it may be delayed arbitrarily (design check)

Ep == "e1"                     \* the stream's epoch; "e2" is a foreign epoch
InsufficientCode == 2500       \* unsubscribe code "insufficient state"
DiscInsufficient == 3010       \* disconnect code "insufficient state"

VARIABLES
  top, win,      \* broker stream: top offset, retained window <<[off, tag]>>
  tags,          \* history variable: tags[off] for every published offset (the driver knows what it published)
  wire,          \* deliveries handed over by the broker, not yet delivered: set of [id, off, ep, tag, lag]
  npub, faults,
  cfg,           \* the subscription: [kind, filt, since: [off, ep]]   (since only meaningful for kind = "rec")
  pc,            \* subscriber thread: "idle", "g1", "g2", "g3", "done", "failed"
  hub,           \* routing entry exists
  hres,          \* history result read at g2->g3: [pubs, top]
  buf,           \* pubSubSync buffer (while buffering)
  sub,           \* [st: "none" | "live" | "ended", pos, ep]
  pend,          \* spawned, not yet executed handleInsufficientState goroutines
  chk,           \* periodic position check in progress: [st: "idle" | "read" | "judged", pos, ep, valid]
  nchk,
  out,           \* frames written to the connection (history variable)
  step

vars == <<top, win, tags, wire, npub, faults, cfg, pc, hub, hres, buf, sub, pend, chk, nchk, out, step>>

Positioned == cfg.kind \in {"pos", "rec", "cache"}
Buffering  == Positioned /\ pc \in {"g1", "g2", "g3", "gp", "g4"}
\* Publications are tagged t = "keep", t = "drop" or carry no tags at all ("none"). A positive filter (t eq keep) admits
\* only "keep"; a negative one (cfg.neg: t neq drop) admits everything except "drop", in particular untagged publications.
Filtered(tag) == cfg.filt /\ (IF cfg.neg THEN tag = "drop" ELSE tag # "keep")
TagsOffered == IF cfg.filt THEN {"keep", "drop", "none"} ELSE {"keep"}      \* without a filter the tag is irrelevant

\* filt: the subscription has a tags filter that withholds publications tagged "drop"; sf: that filter is the
\* server-side one (SubscribeOptions.ServerTagsFilter) rather than the client's (same semantics, other code path)
Filt == {[filt |-> FALSE, sf |-> FALSE, neg |-> FALSE], [filt |-> TRUE, sf |-> FALSE, neg |-> FALSE], [filt |-> TRUE, sf |-> TRUE, neg |-> FALSE],
         [filt |-> TRUE, sf |-> FALSE, neg |-> TRUE], [filt |-> TRUE, sf |-> TRUE, neg |-> TRUE]}
NoSince == [off |-> 0, ep |-> ""]
\* noep: the broker reported an empty epoch at subscribe time (e.g. a lagging replica without the stream's meta):
\* the subscription starts with epoch "" and adopts the epoch of the first publication it sees
\* server: the subscription is made by the application (Client.Subscribe, options WithPositioning / WithRecovery /
\* WithRecoverSince / a server tags filter) instead of a client command: the connection gets a subscribe push that has
\* no room for recovered publications, so it announces the position the subscription continues from; an
\* insufficient state later disconnects (3010) instead of unsubscribing; a failed subscribe is returned to the caller
SFilt == {f \in Filt : f.filt => f.sf}
ClientCfgs ==
  {[kind |-> k, filt |-> f.filt, sf |-> f.sf, neg |-> f.neg, pop |-> FALSE, auto |-> FALSE, noep |-> FALSE, server |-> FALSE, since |-> NoSince] : k \in Kinds \ {"rec", "cache"}, f \in Filt}
  \cup (IF "pos" \in Kinds THEN {[kind |-> "pos", filt |-> f.filt, sf |-> f.sf, neg |-> f.neg, pop |-> FALSE, auto |-> FALSE, noep |-> TRUE, server |-> FALSE, since |-> NoSince] : f \in Filt} ELSE {})
  \cup (IF "rec" \in Kinds
          THEN {[kind |-> "rec", filt |-> f.filt, sf |-> f.sf, neg |-> f.neg, pop |-> FALSE, auto |-> FALSE, noep |-> FALSE, server |-> FALSE, since |-> [off |-> o, ep |-> e]] :
                  f \in Filt, o \in 0..MaxPub, e \in {"", Ep, "e2"}}
          ELSE {})
  \cup (IF "cache" \in Kinds
          THEN {[kind |-> "cache", filt |-> f.filt, sf |-> f.sf, neg |-> f.neg, pop |-> p, auto |-> FALSE, noep |-> FALSE, server |-> FALSE, since |-> [off |-> o, ep |-> e]] :
                  f \in Filt, o \in 0..MaxPub, e \in {"", Ep, "e2"}, p \in BOOLEAN}
               \cup {[kind |-> "cache", filt |-> f.filt, sf |-> f.sf, neg |-> f.neg, pop |-> p, auto |-> TRUE, noep |-> FALSE, server |-> FALSE, since |-> NoSince] : f \in Filt, p \in BOOLEAN}
          ELSE {})
ServerCfgs ==
  {[kind |-> k, filt |-> f.filt, sf |-> f.sf, neg |-> f.neg, pop |-> FALSE, auto |-> FALSE, noep |-> FALSE, server |-> TRUE, since |-> NoSince] : k \in Kinds \cap {"pos", "plain", "nohist"}, f \in SFilt}
  \cup (IF "rec" \in Kinds
          THEN {[kind |-> "rec", filt |-> f.filt, sf |-> f.sf, neg |-> f.neg, pop |-> FALSE, auto |-> FALSE, noep |-> FALSE, server |-> TRUE, since |-> [off |-> o, ep |-> e]] :
                  f \in SFilt, o \in 0..MaxPub, e \in {"", Ep, "e2"}}
          ELSE {})
Cfgs == (IF FALSE \in Servers THEN ClientCfgs ELSE {}) \cup (IF TRUE \in Servers THEN ServerCfgs ELSE {})

\* adv: ids of the deliveries that advanced the position while the check was in progress (history, for the witness below)
NoCheck == [st |-> "idle", pos |-> 0, ep |-> "", valid |-> FALSE, adv |-> {}]

Init ==
  /\ top = 0 /\ win = <<>> /\ tags = <<>> /\ wire = {} /\ npub = 0 /\ faults = 0
  /\ cfg \in Cfgs
  /\ pc = "idle" /\ hub = FALSE /\ hres = [pubs |-> <<>>, top |-> 0, latest |-> 0, vis |-> 0, win |-> <<>>, re |-> FALSE] /\ buf = <<>>
  /\ sub = [st |-> "none", pos |-> 0, ep |-> ""]
  /\ pend = 0 /\ out = <<>>
  /\ chk = NoCheck /\ nchk = 0
  /\ step = [act |-> "Init"]

---------------------------------------------------------------------------
(* broker side *)
Publish(tag) ==
  /\ npub < MaxPub
  /\ npub' = npub + 1
  /\ IF cfg.kind = "nohist"
       THEN /\ UNCHANGED <<top, win, tags>>
            /\ wire' = wire \cup {[id |-> npub + 1, off |-> 0, ep |-> "", tag |-> tag, lag |-> FALSE]}
       ELSE /\ top' = top + 1
            /\ tags' = Append(tags, tag)
            /\ LET w == Append(win, [off |-> top + 1, tag |-> tag])
               IN win' = IF Len(w) > HistSize THEN SubSeq(w, Len(w) - HistSize + 1, Len(w)) ELSE w
            /\ wire' = wire \cup {[id |-> npub + 1, off |-> top + 1, ep |-> Ep, tag |-> tag, lag |-> FALSE]}
  /\ UNCHANGED <<faults, cfg, pc, hub, hres, buf, sub, pend, chk, nchk, out>>
  /\ step' = [act |-> "Publish", tag |-> tag, id |-> npub + 1]

\* RemoveHistory / expiry: the window is cleared, top and epoch stay
ClearHistory ==
  /\ win # <<>> /\ cfg.kind # "nohist"
  /\ win' = <<>>
  /\ UNCHANGED <<top, tags, wire, npub, faults, cfg, pc, hub, hres, buf, sub, pend, chk, nchk, out>>
  /\ step' = [act |-> "ClearHistory"]

(* node side: one delivery entering Node.HandlePublication *)
Insufficient == pend' = pend + 1

Receive(d) ==
  IF ~hub THEN UNCHANGED <<buf, sub, pend, out>>            \* no local subscribers
  ELSE IF d.off = 0 THEN
       \* publication without offset: delivered only to an established subscription (C10)
       /\ UNCHANGED <<buf, sub, pend>>
       /\ out' = IF sub.st = "live" /\ ~Filtered(d.tag) THEN Append(out, [t |-> "pub", off |-> 0, id |-> d.id]) ELSE out
  ELSE IF Buffering THEN
       \* SyncPublication: buffered (a filtered one as a placeholder)
       /\ buf' = Append(buf, [off |-> d.off, f |-> Filtered(d.tag), id |-> d.id])
       /\ UNCHANGED <<sub, pend, out>>
  ELSE \* writePublicationUpdatePosition
       /\ UNCHANGED buf
       /\ IF sub.st # "live" THEN UNCHANGED <<sub, pend, out>>
          ELSE IF ~Positioned THEN
               /\ UNCHANGED <<sub, pend>>
               /\ out' = IF Filtered(d.tag) THEN out ELSE Append(out, [t |-> "pub", off |-> d.off, id |-> d.id])
          ELSE IF d.lag THEN Insufficient /\ UNCHANGED <<sub, out>>
          ELSE IF d.ep # sub.ep /\ sub.ep # "" THEN Insufficient /\ UNCHANGED <<sub, out>>
          ELSE LET ep2 == IF sub.ep = "" THEN d.ep ELSE sub.ep IN
               IF d.off > sub.pos + 1 THEN /\ Insufficient /\ sub' = [sub EXCEPT !.ep = ep2] /\ UNCHANGED out
               ELSE IF d.off < sub.pos + 1 THEN /\ sub' = [sub EXCEPT !.ep = ep2] /\ UNCHANGED <<pend, out>>
               ELSE /\ sub' = [sub EXCEPT !.pos = d.off, !.ep = ep2]
                    /\ UNCHANGED pend
                    /\ out' = IF Filtered(d.tag) THEN out ELSE Append(out, [t |-> "pub", off |-> d.off, id |-> d.id])

InOrder(d) == \A e \in wire : e.id >= d.id

Deliver(d, keep, foreign, lagged) ==
  /\ d \in wire
  /\ LET nf == (IF keep THEN 1 ELSE 0) + (IF foreign THEN 1 ELSE 0) + (IF lagged THEN 1 ELSE 0)
                + (IF InOrder(d) THEN 0 ELSE 1)
     IN /\ faults + nf <= MaxFaults
        /\ faults' = faults + nf
  /\ (foreign \/ lagged) => d.off # 0
  /\ wire' = IF keep THEN wire ELSE wire \ {d}
  /\ Receive([d EXCEPT !.ep = IF foreign THEN "e2" ELSE d.ep, !.lag = lagged])
  /\ chk' = IF chk.st # "idle" /\ sub'.pos > sub.pos THEN [chk EXCEPT !.adv = @ \cup {d.id}] ELSE chk
  /\ UNCHANGED <<top, win, tags, npub, cfg, pc, hub, hres, nchk>>
  /\ step' = [act |-> "Deliver", id |-> d.id, keep |-> keep, foreign |-> foreign, lagged |-> lagged]

Drop(d) ==
  /\ d \in wire /\ faults < MaxFaults
  /\ faults' = faults + 1
  /\ wire' = wire \ {d}
  /\ UNCHANGED <<top, win, tags, npub, cfg, pc, hub, hres, buf, sub, pend, chk, nchk, out>>
  /\ step' = [act |-> "Drop", id |-> d.id]

\* handleInsufficientState goroutine (client-side subscription => unsubscribe + push; server-side => disconnect)
AsyncEnd ==
  /\ pend > 0
  /\ pend' = pend - 1
  /\ IF sub.st = "live" THEN sub' = [sub EXCEPT !.st = "ended"] /\ hub' = FALSE
                        ELSE UNCHANGED <<sub, hub>>
  /\ IF cfg.server
       THEN out' = IF sub.st = "live" THEN Append(out, [t |-> "disc", code |-> DiscInsufficient]) ELSE out   \* close is idempotent
       ELSE out' = Append(out, [t |-> "unsub", code |-> InsufficientCode])     \* written even when already gone (as coded)
  /\ UNCHANGED <<top, win, tags, wire, npub, faults, cfg, pc, hres, buf, chk, nchk>>
  /\ step' = [act |-> "AsyncEnd"]

---------------------------------------------------------------------------
(* subscriber thread *)
SubStart ==                                  \* ... StartBuffering, addSubscription -> parked in Broker.Subscribe
  /\ pc = "idle"
  /\ pc' = "g1" /\ hub' = TRUE
  /\ UNCHANGED <<top, win, tags, wire, npub, faults, cfg, hres, buf, sub, pend, chk, nchk, out>>
  /\ step' = [act |-> "SubStart"]

SubToHistory ==                              \* released -> parked before Broker.History
  /\ pc = "g1" /\ Positioned
  /\ pc' = "g2"
  /\ UNCHANGED <<top, win, tags, wire, npub, faults, cfg, hub, hres, buf, sub, pend, chk, nchk, out>>
  /\ step' = [act |-> "SubToHistory"]

\* Stream.Get from since+1 with the recovery limit (see MemBroker.tla for the full transcription)
After(w, o) == SelectSeq(w, LAMBDA x : x.off > o)
Limited(s)  == IF RecLimit > 0 /\ Len(s) > RecLimit THEN SubSeq(s, 1, RecLimit) ELSE s

\* recoverCache: without filters History(limit 1, reverse); with a filter a reverse scan (bounded by the recovery
\* limit) for the newest publication passing it; nothing visible => (nil, nil)
Scan(w)   == IF RecLimit > 0 /\ Len(w) > RecLimit THEN SubSeq(w, Len(w) - RecLimit + 1, Len(w)) ELSE w
Newest(w) == IF w = <<>> THEN 0 ELSE w[Len(w)].off
NewestVisible(w) == LET v == SelectSeq(w, LAMBDA x : ~Filtered(x.tag)) IN Newest(v)

SubHistRead ==                               \* the broker's History call happens -> parked after it
  /\ pc = "g2"
  /\ pc' = "g3"
  /\ hres' = [pubs   |-> IF cfg.kind = "rec" THEN Limited(After(win, cfg.since.off)) ELSE <<>>,
              top    |-> top,
              vis    |-> IF cfg.kind = "cache" THEN (IF cfg.filt THEN NewestVisible(Scan(win)) ELSE Newest(win)) ELSE 0,
              \* the newest publication in history, visible or not (C03: `recovered` does not depend on the filter)
              latest |-> IF cfg.kind = "cache" THEN Newest(win) ELSE 0,
              win    |-> win,
              re     |-> FALSE]            \* re: this is the re-read after the cache-empty handler populated
  /\ UNCHANGED <<top, win, tags, wire, npub, faults, cfg, hub, buf, sub, pend, chk, nchk, out>>
  /\ step' = [act |-> "SubHistRead"]

\* isStreamRecovered
Recovered ==
  /\ cfg.kind = "rec"
  /\ (cfg.since.ep = "" \/ cfg.since.ep = Ep)
  /\ IF hres.pubs = <<>> THEN hres.top = cfg.since.off
     ELSE hres.pubs[1].off = cfg.since.off + 1 /\ hres.pubs[Len(hres.pubs)].off = hres.top

\* cache recovery with a cache-empty handler (Node.OnCacheEmpty, an application callback): when the first read found
\* no publication at all and did not recover, the handler is called; if it reports Populated the cache is read once more
\* (pop: the application populates, i.e. publishes into the channel from inside the handler)
SameFirst == cfg.since.off > 0 /\ cfg.since.off = hres.top /\ cfg.since.ep = Ep
NeedsHandler == cfg.kind = "cache" /\ cfg.pop /\ hres.latest = 0 /\ ~SameFirst

SubToHandler ==                              \* released after the first read -> parked inside the cache-empty handler
  /\ pc = "g3" /\ NeedsHandler
  /\ pc' = "gp"
  /\ UNCHANGED <<top, win, tags, wire, npub, faults, cfg, hub, hres, buf, sub, pend, chk, nchk, out>>
  /\ step' = [act |-> "SubToHandler"]

\* the handler publishes one publication and answers Populated; the second read happens -> parked after it
SubPopulate(tag) ==
  /\ pc = "gp" /\ npub < MaxPub
  /\ npub' = npub + 1 /\ top' = top + 1 /\ tags' = Append(tags, tag)
  /\ LET w  == Append(win, [off |-> top + 1, tag |-> tag])
         w2 == IF Len(w) > HistSize THEN SubSeq(w, Len(w) - HistSize + 1, Len(w)) ELSE w
     IN /\ win' = w2
        /\ hres' = [pubs |-> <<>>, top |-> top + 1,
                    vis |-> IF cfg.filt THEN NewestVisible(Scan(w2)) ELSE Newest(w2),
                    latest |-> Newest(w2), win |-> w2, re |-> TRUE]
  /\ wire' = wire \cup {[id |-> npub + 1, off |-> top + 1, ep |-> Ep, tag |-> tag, lag |-> FALSE]}
  /\ pc' = "g4"
  /\ UNCHANGED <<faults, cfg, hub, buf, sub, pend, chk, nchk, out>>
  /\ step' = [act |-> "SubPopulate", tag |-> tag, id |-> npub + 1]

SubNoPopulate ==                             \* the handler has nothing to publish: Populated = FALSE, no second read
  /\ pc = "gp" /\ npub >= MaxPub
  /\ pc' = "g4"
  /\ UNCHANGED <<top, win, tags, wire, npub, faults, cfg, hub, hres, buf, sub, pend, chk, nchk, out>>
  /\ step' = [act |-> "SubNoPopulate"]

SubFinish ==
  /\ \/ pc = "g3" /\ ~NeedsHandler
     \/ pc = "g4"
     \/ pc = "g1" /\ ~Positioned             \* non-positioned: no history call at all
  /\ IF ~Positioned
       THEN /\ out' = Append(out, [t |-> "reply", off |-> 0, recovered |-> FALSE, pubs |-> <<>>])
            /\ sub' = [st |-> "live", pos |-> 0, ep |-> ""]
            /\ pc' = "done" /\ UNCHANGED <<hub, buf, pend>>
       ELSE
         LET isCache == cfg.kind = "cache"
             \* isCacheRecovered
             same   == cfg.since.off > 0 /\ cfg.since.off = hres.top /\ cfg.since.ep = Ep
             crec   == IF hres.latest = 0 THEN same ELSE hres.latest = hres.top
             cpubs  == IF hres.latest # 0 /\ hres.latest = hres.top /\ ~same /\ hres.vis # 0
                         THEN <<[off |-> hres.vis, f |-> FALSE, id |-> 0]>> ELSE <<>>
             recd   == IF isCache THEN crec ELSE Recovered
             recl   == IF isCache THEN cpubs
                       ELSE IF recd THEN [i \in 1..Len(hres.pubs) |->
                                       [off |-> hres.pubs[i].off, f |-> Filtered(hres.pubs[i].tag), id |-> 0]]
                               ELSE <<>>
             \* buffered publications the client already has (offset <= requested offset) are not re-delivered
             bufl   == IF recd /\ ~isCache THEN SelectSeq(buf, LAMBDA x : x.off > cfg.since.off)
                       \* cache mode: a buffered publication not newer than the history top is stale
                       ELSE IF recd /\ isCache THEN SelectSeq(buf, LAMBDA x : x.off > hres.top)
                       ELSE buf
             \* a recovered subscribe must account for every offset from the requested one up to the newest seen
             \* (recovered, buffered or a filtered placeholder of either); otherwise a publication was lost
             offs   == {recl[i].off : i \in 1..Len(recl)} \cup {bufl[i].off : i \in 1..Len(bufl)}
             hole   == recd /\ ~isCache /\ bufl # <<>> /\
                         \E o \in (cfg.since.off + 1)..(CHOOSE x \in offs : \A y \in offs : y <= x) : o \notin offs
             m0     == MergeImpl(recl, [i \in 1..Len(bufl) |-> [off |-> bufl[i].off, f |-> bufl[i].f, id |-> bufl[i].id]])
             m      == IF hole THEN [m0 EXCEPT !.ok = FALSE] ELSE m0
             last   == IF m.pubs = <<>> THEN 0 ELSE m.pubs[Len(m.pubs)]
             l1     == IF last > hres.top THEN last ELSE hres.top
             latest == IF m.max > l1 THEN m.max ELSE l1
         IN IF ~m.ok
              THEN \* gap between recovered and buffered publications: disconnect with insufficient state
                   \* (server-side: the error is returned to the caller of Client.Subscribe, the connection sees nothing)
                   /\ out' = IF cfg.server THEN out ELSE Append(out, [t |-> "disc", code |-> DiscInsufficient])
                   /\ pc' = "failed" /\ hub' = FALSE /\ buf' = <<>>
                   /\ sub' = [st |-> "ended", pos |-> 0, ep |-> ""]
                   /\ UNCHANGED pend
              ELSE /\ out' = Append(out, [t |-> "reply",
                                         \* (server-side: the subscribe push announces `latest`, carries no publications)
                                         off |-> IF recd /\ ~cfg.server THEN cfg.since.off ELSE latest,
                                         recovered |-> recd /\ ~cfg.server,
                                         pubs |-> IF ~recd \/ cfg.server THEN <<>>
                                                  \* cache mode: the client wants the last publication only
                                                  ELSE IF isCache /\ Len(m.pubs) > 1 THEN <<m.pubs[Len(m.pubs)]>>
                                                  ELSE m.pubs])
                   /\ sub' = [st |-> "live", pos |-> latest, ep |-> IF cfg.noep THEN "" ELSE Ep]
                   /\ pc' = "done" /\ buf' = <<>>
                   /\ UNCHANGED <<hub, pend>>
  /\ UNCHANGED <<top, win, tags, wire, npub, faults, cfg, hres, chk, nchk>>
  /\ step' = [act |-> "SubFinish"]

---------------------------------------------------------------------------
(* periodic position check (client.go checkPosition, run by the presence tick): the position is read under c.mu,
   the stream top is asked from the broker WITHOUT the lock (deliveries go on meanwhile), a valid answer only stamps
   the check time (the position itself is not touched), an invalid one ends the subscription with insufficient state
   (client-side: unsubscribe + push from a goroutine the harness cannot park; server-side: disconnect).
   As coded the comparison is position = top and same epoch, also while deliveries are still on the wire. *)
CheckStart ==
  /\ MaxChecks > 0 /\ nchk < MaxChecks
  /\ Positioned /\ ~cfg.noep /\ pc = "done" /\ sub.st = "live" /\ chk.st = "idle" /\ pend = 0
  /\ chk' = [st |-> "read", pos |-> sub.pos, ep |-> sub.ep, valid |-> FALSE, adv |-> {}]
  /\ nchk' = nchk + 1
  /\ UNCHANGED <<top, win, tags, wire, npub, faults, cfg, pc, hub, hres, buf, sub, pend, out>>
  /\ step' = [act |-> "CheckStart"]

CheckRead ==                                 \* the broker's History(limit 0) call happens
  /\ chk.st = "read"
  /\ chk' = [chk EXCEPT !.st = "judged", !.valid = (chk.pos = top /\ chk.ep = Ep)]
  /\ UNCHANGED <<top, win, tags, wire, npub, faults, cfg, pc, hub, hres, buf, sub, pend, nchk, out>>
  /\ step' = [act |-> "CheckRead"]

CheckEnd ==
  /\ chk.st = "judged"
  /\ chk' = [NoCheck EXCEPT !.adv = IF chk.valid THEN chk.adv ELSE {}]
  /\ IF chk.valid THEN UNCHANGED <<sub, hub, out>>
     ELSE /\ IF sub.st = "live" THEN sub' = [sub EXCEPT !.st = "ended"] /\ hub' = FALSE
                              ELSE UNCHANGED <<sub, hub>>
          /\ IF cfg.server
               THEN out' = IF sub.st = "live" THEN Append(out, [t |-> "disc", code |-> DiscInsufficient]) ELSE out
               ELSE out' = Append(out, [t |-> "unsub", code |-> InsufficientCode])
  /\ UNCHANGED <<top, win, tags, wire, npub, faults, cfg, pc, hres, buf, pend, nchk>>
  /\ step' = [act |-> "CheckEnd", valid |-> chk.valid]

Next ==
  IF UrgentAsync /\ pend > 0 THEN AsyncEnd ELSE
  \/ \E t \in TagsOffered : Publish(t)
  \/ ClearHistory
  \/ \E d \in wire : Drop(d)
  \/ \E d \in wire, k \in BOOLEAN, f \in BOOLEAN, l \in BOOLEAN : Deliver(d, k, f, l)
  \/ AsyncEnd
  \/ SubStart \/ SubToHistory \/ SubHistRead \/ SubFinish
  \/ SubToHandler \/ SubNoPopulate \/ \E t \in TagsOffered : SubPopulate(t)
  \/ CheckStart \/ CheckRead \/ CheckEnd

Spec == Init /\ [][Next]_vars

---------------------------------------------------------------------------
(* Observable-only monitors: formulas over `out` (what the connection received), `cfg` (what the client asked
   for) and `tags` (what the driver published).  The Go harness evaluates the same formulas on the frames
   recorded from the real code. *)

PubFrames   == SelectSeq(out, LAMBDA x : x.t = "pub")
ReplyIdx    == IF \E i \in 1..Len(out) : out[i].t = "reply" THEN CHOOSE i \in 1..Len(out) : out[i].t = "reply" ELSE 0
EndIdx      == IF \E i \in 1..Len(out) : out[i].t \in {"unsub", "disc"}
                 THEN CHOOSE i \in 1..Len(out) : out[i].t \in {"unsub", "disc"} /\ \A j \in 1..(i - 1) : out[j].t \notin {"unsub", "disc"}
                 ELSE 0

\* everything delivered, recovered publications first: the sequence of offsets the client has seen
Seen == IF ReplyIdx = 0 THEN <<>>
        ELSE out[ReplyIdx].pubs \o [i \in 1..Len(PubFrames) |-> PubFrames[i].off]

SubscribePos == IF ReplyIdx = 0 THEN 0 ELSE out[ReplyIdx].off

C01_Ordered  == Positioned => \A i \in 1..(Len(Seen) - 1) : Seen[i] < Seen[i + 1]
C01_GapFree  == (Positioned /\ cfg.kind # "cache" /\ Seen # <<>>) =>
                  \A o \in (SubscribePos + 1)..Seen[Len(Seen)] :
                     (\E i \in 1..Len(Seen) : Seen[i] = o) \/ (o <= Len(tags) /\ Filtered(tags[o]))
C01_AfterPos == (Positioned /\ cfg.kind # "cache") => \A i \in 1..Len(Seen) : Seen[i] > SubscribePos
C01 == C01_Ordered /\ C01_GapFree /\ C01_AfterPos

\* C10: publication pushes only between the subscribe reply and the end of the subscription
C10 == \A i \in 1..Len(out) : out[i].t = "pub" =>
          /\ ReplyIdx # 0 /\ ReplyIdx < i
          /\ (EndIdx # 0 => i < EndIdx)

\* C16: nothing excluded by the filter is delivered (live pushes and recovered publications)
C16 == /\ \A i \in 1..Len(out) : (out[i].t = "pub" /\ out[i].off # 0) => ~Filtered(tags[out[i].off])
       /\ ReplyIdx # 0 => \A j \in 1..Len(out[ReplyIdx].pubs) : ~Filtered(tags[out[ReplyIdx].pubs[j]])

\* C02: recovered = TRUE exactly delivers the stream after the requested offset up to the top seen by the
\* subscribe (minus filtered ones); recovered = FALSE delivers nothing.
C02 == (ReplyIdx # 0 /\ cfg.kind # "cache") =>
         LET r == out[ReplyIdx] IN
         /\ ~r.recovered => r.pubs = <<>>
         /\ r.recovered =>
              /\ cfg.kind = "rec" /\ cfg.since.ep \in {"", Ep}
              /\ \A j \in 1..Len(r.pubs) : r.pubs[j] > cfg.since.off
              /\ (r.pubs # <<>>) =>
                   \A o \in (cfg.since.off + 1)..r.pubs[Len(r.pubs)] :
                      (\E j \in 1..Len(r.pubs) : r.pubs[j] = o) \/ Filtered(tags[o])
              \* nothing published before the subscribe started reading history may be missing
              /\ \A o \in (cfg.since.off + 1)..hres.top :
                      (\E j \in 1..Len(r.pubs) : r.pubs[j] = o) \/ Filtered(tags[o])
              /\ (RecLimit > 0 => Len(hres.pubs) <= RecLimit /\ (Len(hres.pubs) = RecLimit => hres.pubs[Len(hres.pubs)].off = hres.top))

\* C03: cache recovery delivers at most the newest visible publication; recovered exactly when the channel's newest
\* publication is present in history or the client already holds the current position
C03 == (ReplyIdx # 0 /\ cfg.kind = "cache") =>
         LET r == out[ReplyIdx]
             newestPresent == hres.win # <<>> /\ Newest(hres.win) = hres.top
             holdsCurrent  == cfg.since.off > 0 /\ cfg.since.off = hres.top /\ cfg.since.ep = Ep
         IN /\ Len(r.pubs) <= 1
            /\ \A j \in 1..Len(r.pubs) :
                 /\ ~Filtered(tags[r.pubs[j]])
                 \* nothing visible that is newer was in history when it was read
                 /\ r.pubs[j] >= NewestVisible(hres.win)
            /\ r.recovered <=> (newestPresent \/ holdsCurrent)

\* the position the server keeps equals the last offset it accounted for
PosConsistent == (sub.st = "live" /\ Positioned /\ Seen # <<>>) => sub.pos >= Seen[Len(Seen)]

\* witness search: "a delivery that advanced the position during a valid position check is never delivered again
\* afterwards" (the schedule on which a check that writes back a stale position would re-deliver it)
W_RedeliveryAfterCheck == ~(step.act = "Deliver" /\ chk.st = "idle" /\ step.id \in chk.adv /\ sub.st = "live" /\ pend = 0
                            /\ ~cfg.filt /\ ~step.foreign /\ ~step.lagged)      \* the re-delivery must be observable if accepted

\* witness search: "a cache subscribe whose cache-empty handler populated the channel with a publication the filter excludes
\* never finishes" (the schedule on which a re-read that forgets the filters would deliver it)
W_PopulatedFiltered == ~(step.act = "SubFinish" /\ cfg.kind = "cache" /\ cfg.pop /\ cfg.filt /\ Len(tags) >= 1
                         /\ Filtered(tags[Len(tags)]) /\ hres.latest = Len(tags) /\ hres.re /\ ReplyIdx # 0)

KindsPos == {"pos"}
ServersClient == {FALSE}

TypeOK == pend >= 0 /\ faults <= MaxFaults /\ npub <= MaxPub

View == <<top, win, wire, npub, faults, cfg, pc, hub, hres, buf, sub, pend, chk, nchk, out>>
=============================================================================
