SPECIFICATION Spec
CONSTANTS
  Keys = {"a", "b"}
  NonPub = {"join", "leave"}
  Sizes = {0, 1, 2, 3}
  Delays = {TRUE, FALSE}
  Lates = {TRUE, FALSE}
  Threads = {1}
  MaxAdds = 6
  MaxEnds = 3
  AtomicAdd = TRUE
  ClosedRefuses = TRUE
  SplitGet = FALSE
  RecheckOnStore = TRUE
  StaleTimers = TRUE
VIEW View
INVARIANTS TypeOK LatUnique PendingAgree TimerSane
PROPERTIES OrderPreserved LatestCoalesced EndFlushesAll EndDiscards NoOrphanFlush SizeExact
CHECK_DEADLOCK FALSE
