-------------------------------- MODULE Ring --------------------------------
(* C12, first half: internal/queue/queue.go -- the ring buffer below the
   per-connection writer, modelled CONCRETELY: `nodes` is the backing array
   (a function 0..cap-1, cap = len(q.nodes) = cap(q.nodes)), head, tail, cnt,
   size (bytes), initCap, the delayed-shrink timer.  Every exported method is
   one action (each is one critical section of q.mu).  Independently of the
   transcription an abstract FIFO `fifo` is updated by Append / SubSeq; the
   refinement mapping Abs(ring) must equal it in every reachable state and
   every value returned by the transcription must equal the value the abstract
   FIFO prescribes (step.res = step.ref).

   Items are [id, bytes] (bytes = len(Item.Data)); Nil is the zero Item.     *)
EXTENDS Integers, Sequences, FiniteSets, TLC

CONSTANTS
  InitCaps,     \* initial capacities offered to New()
  MaxItems,     \* ids 1..MaxItems are handed to Add / AddMany
  Batches,      \* maxItems arguments of RemoveMany* (-1 = all)
  BufLens,      \* len(buf) arguments of RemoveManyInto*
  ByteSizes,    \* len(Item.Data) of added items
  ManyLens      \* number of items of one AddMany call

VARIABLES
  nodes, head, tail, cnt, size, closed, initCap,
  armed,        \* shrinkTimer exists and is pending (FinishCollect(d>0) armed or Reset it)
  late,         \* the timer callback had already fired when Close stopped the timer: it still runs once
  fifo,         \* the abstract queue (specification variable)
  nextid,
  step

ring == <<nodes, head, tail, cnt, size, closed, initCap, armed, late>>
vars == <<ring, fifo, nextid, step>>

BatchesStd == {-1, 1, 2, 3}      \* (a cfg file cannot spell negative numbers)
Nil == [id |-> 0, bytes |-> 0]
Min(a, b) == IF a < b THEN a ELSE b

R == [nodes |-> nodes, head |-> head, tail |-> tail, cnt |-> cnt, size |-> size]
RCap(r) == Cardinality(DOMAIN r.nodes)
Cap == Cardinality(DOMAIN nodes)

---------------------------------------------------------------------------
(* q.resize(n), statement by statement; Go's copy() copies min(len(dst), len(src)). *)
RResize(r, n) ==
  LET nd == r.nodes  h == r.head  t == r.tail  cp == RCap(r)
      fresh == [i \in 0..(n - 1) |-> Nil]
  IN IF r.cnt = 0
       THEN [r EXCEPT !.nodes = fresh, !.head = 0, !.tail = 0]
       ELSE IF h < t
         THEN LET k == Min(n, t - h)
              IN [r EXCEPT !.nodes = [i \in 0..(n - 1) |-> IF i < k THEN nd[h + i] ELSE Nil],
                           !.head = 0, !.tail = r.cnt % n]
         ELSE LET c1 == Min(n, cp - h)                     \* copied := copy(nodes, q.nodes[q.head:])
                  c2 == Min(n - c1, t)                     \* copy(nodes[copied:], q.nodes[:q.tail])
              IN [r EXCEPT !.nodes = [i \in 0..(n - 1) |-> IF i < c1 THEN nd[h + i]
                                                           ELSE IF i < c1 + c2 THEN nd[i - c1] ELSE Nil],
                           !.head = 0, !.tail = r.cnt % n]

\* q.nodes[q.tail] = i; q.tail = (q.tail + 1) % len(q.nodes); q.size += len(i.Data); q.cnt++
RPut(r, it) == [r EXCEPT !.nodes[r.tail] = it, !.tail = (r.tail + 1) % RCap(r),
                         !.size = r.size + it.bytes, !.cnt = r.cnt + 1]

RAdd(r, it) == RPut(IF r.cnt = RCap(r) THEN RResize(r, r.cnt * 2) ELSE r, it)

RECURSIVE GrowTo(_, _)
GrowTo(c, need) == IF c < need THEN GrowTo(c * 2, need) ELSE c
RECURSIVE RPutAll(_, _)
RPutAll(r, its) == IF its = <<>> THEN r ELSE RPutAll(RPut(r, Head(its)), Tail(its))
RAddMany(r, its) ==
  LET need == r.cnt + Len(its)
      r1 == IF need > RCap(r)
              THEN RResize(r, GrowTo(IF RCap(r) = 0 THEN initCap ELSE RCap(r), need))
              ELSE r
  IN RPutAll(r1, its)

\* one iteration of the removal loops; `clear` = "q.nodes[q.head] = Item{}", `acct` = "q.size -= len(..)"
RPop(r, clear, acct) ==
  LET it == r.nodes[r.head]
  IN [r  |-> [r EXCEPT !.nodes[r.head] = IF clear THEN Nil ELSE it,
                       !.head = (r.head + 1) % RCap(r),
                       !.cnt = r.cnt - 1,
                       !.size = IF acct THEN r.size - it.bytes ELSE r.size],
      it |-> it]
RECURSIVE RTake(_, _, _, _, _)
RTake(r, k, clear, acct, out) ==
  IF k = 0 THEN [r |-> r, out |-> out]
  ELSE LET p == RPop(r, clear, acct) IN RTake(p.r, k - 1, clear, acct, Append(out, p.it))

\* "for { if k >= q.initCap && q.cnt <= k { n = k } else { break }; k /= 2 }"
RECURSIVE ShrinkN(_, _, _)
ShrinkN(k, c, best) == IF k >= initCap /\ c <= k THEN ShrinkN(k \div 2, c, k) ELSE best
RShrinkMulti(r) == LET n == ShrinkN(RCap(r) \div 2, r.cnt, -1) IN IF n # -1 THEN RResize(r, n) ELSE r
\* doShrinkLocked
RDoShrink(r) == RShrinkMulti(IF r.cnt = 0 THEN [r EXCEPT !.head = 0, !.tail = 0] ELSE r)
\* the single-step shrink of Remove()
RShrinkOnce(r) == LET n == RCap(r) \div 2 IN IF n >= initCap /\ r.cnt <= n THEN RResize(r, n) ELSE r

\* "count" of the RemoveMany family; buflen < 0 = no buffer limit (RemoveMany allocates)
Count(c, max, buflen) ==
  LET c0 == IF max = -1 \/ c < max THEN c ELSE max
  IN IF buflen >= 0 /\ c0 > buflen THEN buflen ELSE c0

SetRing(r) == /\ nodes' = r.nodes /\ head' = r.head /\ tail' = r.tail /\ cnt' = r.cnt /\ size' = r.size

---------------------------------------------------------------------------
(* the abstract side *)
RefTake(f, max, buflen) == SubSeq(f, 1, Count(Len(f), max, buflen))
RefRest(f, k) == SubSeq(f, k + 1, Len(f))
RECURSIVE SumBytes(_)
SumBytes(f) == IF f = <<>> THEN 0 ELSE Head(f).bytes + SumBytes(Tail(f))

(* refinement mapping *)
Abs == [i \in 1..cnt |-> nodes[(head + i - 1) % Cap]]

---------------------------------------------------------------------------
Init ==
  /\ initCap \in InitCaps
  /\ nodes = [i \in 0..(initCap - 1) |-> Nil]
  /\ head = 0 /\ tail = 0 /\ cnt = 0 /\ size = 0 /\ closed = FALSE
  /\ armed = FALSE /\ late = FALSE
  /\ fifo = <<>> /\ nextid = 1
  /\ step = [act |-> "New"]

Add(b) ==
  /\ nextid <= MaxItems
  /\ nextid' = nextid + 1
  /\ LET it == [id |-> nextid, bytes |-> b] IN
     IF closed
       THEN /\ UNCHANGED <<ring, fifo>>
            /\ step' = [act |-> "Add", items |-> <<it>>, ok |-> FALSE]
       ELSE /\ SetRing(RAdd(R, it))
            /\ fifo' = Append(fifo, it)
            /\ UNCHANGED <<closed, initCap, armed, late>>
            /\ step' = [act |-> "Add", items |-> <<it>>, ok |-> TRUE]

\* bs: sequence of byte sizes, one per item
AddMany(bs) ==
  /\ nextid + Len(bs) - 1 <= MaxItems
  /\ nextid' = nextid + Len(bs)
  /\ LET its == [i \in 1..Len(bs) |-> [id |-> nextid + i - 1, bytes |-> bs[i]]] IN
     IF closed
       THEN /\ UNCHANGED <<ring, fifo>>
            /\ step' = [act |-> "AddMany", items |-> its, ok |-> FALSE]
       ELSE /\ SetRing(RAddMany(R, its))
            /\ fifo' = fifo \o its
            /\ UNCHANGED <<closed, initCap, armed, late>>
            /\ step' = [act |-> "AddMany", items |-> its, ok |-> TRUE]

Remove ==
  IF cnt = 0
    THEN /\ UNCHANGED <<ring, fifo, nextid>>
         /\ step' = [act |-> "Remove", res |-> <<>>, ok |-> FALSE, ref |-> <<>>, refok |-> fifo # <<>>]
    ELSE LET p == RPop(R, FALSE, TRUE) IN
         /\ SetRing(RShrinkOnce(p.r))
         /\ fifo' = Tail(fifo)
         /\ UNCHANGED <<closed, initCap, armed, late, nextid>>
         /\ step' = [act |-> "Remove", res |-> <<p.it>>, ok |-> TRUE,
                     ref |-> IF fifo = <<>> THEN <<>> ELSE <<Head(fifo)>>, refok |-> fifo # <<>>]

\* kind: "RemoveMany" (allocates, shrinks), "RemoveManyInto" (no shrink, resets head/tail when empty),
\*       "RemoveManyIntoShrink" (doShrinkLocked)
RemoveK(kind, max, buflen) ==
  /\ UNCHANGED <<closed, initCap, armed, late, nextid>>
  /\ LET ref == RefTake(fifo, max, buflen)
         args == [max |-> max, buflen |-> buflen] IN
     IF cnt = 0
       THEN /\ UNCHANGED <<nodes, head, tail, cnt, size, fifo>>
            /\ step' = [act |-> kind, args |-> args, res |-> <<>>, ok |-> FALSE, ref |-> <<>>, refok |-> fifo # <<>>]
       ELSE LET t == RTake(R, Count(cnt, max, buflen), TRUE, TRUE, <<>>)
                r2 == CASE kind = "RemoveMany" -> RShrinkMulti(t.r)
                        [] kind = "RemoveManyIntoShrink" -> RDoShrink(t.r)
                        [] OTHER -> IF t.r.cnt = 0 THEN [t.r EXCEPT !.head = 0, !.tail = 0] ELSE t.r
            IN /\ SetRing(r2)
               /\ fifo' = RefRest(fifo, Len(ref))
               /\ step' = [act |-> kind, args |-> args, res |-> t.out, ok |-> TRUE, ref |-> ref, refok |-> fifo # <<>>]

RemoveMany(max)                   == RemoveK("RemoveMany", max, -1)
RemoveManyInto(buflen, max)       == RemoveK("RemoveManyInto", max, buflen)
RemoveManyIntoShrink(buflen, max) == RemoveK("RemoveManyIntoShrink", max, buflen)

\* FinishCollect(0): immediate doShrinkLocked; FinishCollect(d > 0): arm / Reset the timer
FinishCollect(delayed) ==
  /\ UNCHANGED <<closed, initCap, late, fifo, nextid>>
  /\ IF closed THEN UNCHANGED <<nodes, head, tail, cnt, size, armed>>
     ELSE IF delayed THEN armed' = TRUE /\ UNCHANGED <<nodes, head, tail, cnt, size>>
     ELSE SetRing(RDoShrink(R)) /\ UNCHANGED armed
  /\ step' = [act |-> "FinishCollect", delayed |-> delayed]

\* the AfterFunc callback: q.mu.Lock(); q.doShrinkLocked(); q.mu.Unlock()
ShrinkFire ==
  /\ armed
  /\ armed' = FALSE
  /\ SetRing(RDoShrink(R))
  /\ UNCHANGED <<closed, initCap, late, fifo, nextid>>
  /\ step' = [act |-> "ShrinkFire"]

\* a callback that had fired before Close stopped the timer runs on the closed queue
LateShrink ==
  /\ late /\ late' = FALSE
  /\ SetRing(RDoShrink(R))
  /\ UNCHANGED <<closed, initCap, armed, fifo, nextid>>
  /\ step' = [act |-> "LateShrink"]

CloseQ ==
  /\ closed' = TRUE /\ cnt' = 0 /\ nodes' = [i \in {} |-> Nil] /\ size' = 0
  /\ armed' = FALSE /\ late' \in (IF armed THEN {FALSE, TRUE} ELSE {late})
  /\ fifo' = <<>>
  /\ UNCHANGED <<head, tail, initCap, nextid>>
  /\ step' = [act |-> "Close"]

CloseRemaining ==
  /\ UNCHANGED <<initCap, nextid>>
  /\ IF closed
       THEN /\ UNCHANGED <<nodes, head, tail, cnt, size, closed, armed, late, fifo>>
            /\ step' = [act |-> "CloseRemaining", res |-> <<>>, ref |-> <<>>]
       ELSE LET t == RTake(R, cnt, FALSE, FALSE, <<>>) IN
            /\ head' = t.r.head /\ tail' = tail
            /\ closed' = TRUE /\ cnt' = 0 /\ nodes' = [i \in {} |-> Nil] /\ size' = 0
            /\ armed' = FALSE /\ late' \in (IF armed THEN {FALSE, TRUE} ELSE {late})
            /\ fifo' = <<>>
            /\ step' = [act |-> "CloseRemaining", res |-> t.out, ref |-> fifo]

\* Wait() where it does not block: closed -> false, items present -> true
WaitNB ==
  /\ closed \/ cnt # 0
  /\ UNCHANGED <<ring, fifo, nextid>>
  /\ step' = [act |-> "Wait", ok |-> ~closed, refok |-> ~closed]

BytesSeqs(n) == [1..n -> ByteSizes]

Next ==
  \/ \E b \in ByteSizes : Add(b)
  \/ \E n \in ManyLens : \E bs \in BytesSeqs(n) : AddMany(bs)
  \/ Remove
  \/ \E m \in Batches : RemoveMany(m)
  \/ \E m \in Batches, bl \in BufLens : RemoveManyInto(bl, m) \/ RemoveManyIntoShrink(bl, m)
  \/ \E d \in BOOLEAN : FinishCollect(d)
  \/ ShrinkFire \/ LateShrink \/ CloseQ \/ CloseRemaining \/ WaitNB

Spec == Init /\ [][Next]_vars

---------------------------------------------------------------------------
(* C12 on the ring *)
\* the ring refines the abstract FIFO
Refines == Abs = fifo

\* what the API returned is what the FIFO prescribes: the oldest items, in order, exactly once.
\* (An action property, not an invariant: `step` is outside the VIEW, and TLC evaluates invariants only on
\*  states with a new view but action properties on every transition.)
ReturnsFifoPrefix == [][
  /\ step'.act \in {"Remove", "RemoveMany", "RemoveManyInto", "RemoveManyIntoShrink"} =>
        (step'.res = step'.ref /\ step'.ok = step'.refok)
  /\ step'.act = "CloseRemaining" => step'.res = step'.ref
  /\ step'.act = "Wait" => step'.ok = step'.refok
  /\ step'.act \in {"Add", "AddMany"} => step'.ok = ~closed ]_vars

\* Len / Size / Cap
LenSizeCap ==
  /\ cnt = Len(fifo)                                   \* Len()
  /\ size = SumBytes(fifo)                             \* Size()
  /\ closed => (Cap = 0 /\ cnt = 0 /\ size = 0)
  /\ ~closed => /\ cnt <= Cap
                /\ \E k \in 0..8 : Cap = initCap * (2 ^ k)      \* Cap(): initCap times a power of two
                /\ 0 <= head /\ head < Cap /\ 0 <= tail /\ tail < Cap
                /\ tail = (head + cnt) % Cap

\* slots outside the live window never matter, but the clearing variants do clear (no retention)
TypeOK ==
  /\ \A i \in DOMAIN nodes : nodes[i] = Nil \/ (nodes[i].id \in 1..MaxItems)
  /\ nextid \in 1..(MaxItems + 1)

\* capacity follows the coded rules: grows by doubling only when full, never below initCap
GrowRule == [][ (~closed' /\ Cardinality(DOMAIN nodes') > Cap) =>
                  /\ step'.act \in {"Add", "AddMany"}
                  /\ cnt + Len(step'.items) > Cap
                  /\ Cardinality(DOMAIN nodes') < 2 * (cnt + Len(step'.items)) ]_vars
ShrinkRule == [][ (~closed' /\ Cardinality(DOMAIN nodes') < Cap) =>
                  /\ step'.act \in {"Remove", "RemoveMany", "RemoveManyIntoShrink", "FinishCollect", "ShrinkFire"}
                  /\ Cardinality(DOMAIN nodes') >= initCap
                  /\ cnt' <= Cardinality(DOMAIN nodes') ]_vars

View == <<ring, fifo, nextid>>
=============================================================================
