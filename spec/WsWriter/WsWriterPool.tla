---------------------------- MODULE WsWriterPool ----------------------------
(* C30, blocking assumption of the write path (harness mode `stall`).

   Connections that share a WriteBufferPool (Upgrader.WriteBufferPool,
   centrifuge WebsocketConfig.UseWriteBufferPool) build their frames in buffers
   taken from the pool in beginMessage and give them back in endMessage.  The
   network write of a frame is NOT atomic with respect to other connections:
   net.Conn.Write may take arbitrarily long and may read its argument at any
   time until it returns, and Conn.write may first wait for the connection's
   write mutex (held by a WriteControl).  So a frame is "handed to the network"
   at StartWrite and its bytes are only fixed at FinishWrite.

   conn.go order:  build frame in c.writeBuf; c.write(frame) [Start..Finish];
                   then endMessage -> writePool.Put(buffer).
   Property: what reaches a connection's peer is that connection's own frame
   (OwnBytes), because a buffer referenced by a pending write is neither in
   the pool nor held by another connection (Exclusive).
   With ReleaseEarly = TRUE (endMessage before c.write) TLC produces the
   counterexample A: Begin, StartWrite; B: Begin (same buffer) ...; A: Finish,
   which is exactly the schedule the harness forces on the real code.        *)
EXTENDS Integers, Sequences

CONSTANTS Conns, ReleaseEarly, MaxMsgs

VARIABLES pc,       \* [Conns -> "idle" | "built" | "writing"]
          holds,    \* [Conns -> buffer id held as c.writeBuf, 0 = none]
          wref,     \* [Conns -> buffer the pending network write reads from, 0 = none]
          pool,     \* LIFO stack of released buffer ids
          content,  \* [buffer id -> connection whose frame is in it, "" = none]
          got,      \* [Conns -> sequence of frame owners its peer received]
          nmsg, nextId
vars == <<pc, holds, wref, pool, content, got, nmsg, nextId>>

Bufs == 1..(2 * MaxMsgs + 2)

Init == /\ pc = [c \in Conns |-> "idle"] /\ holds = [c \in Conns |-> 0] /\ wref = [c \in Conns |-> 0]
        /\ pool = <<>> /\ content = [b \in Bufs |-> ""] /\ got = [c \in Conns |-> <<>>]
        /\ nmsg = [c \in Conns |-> 0] /\ nextId = 1

\* beginMessage (writePool.Get or a new buffer) + the frame is built in it
Begin(c) ==
  /\ pc[c] = "idle" /\ nmsg[c] < MaxMsgs
  /\ LET b == IF pool # <<>> THEN pool[Len(pool)] ELSE nextId IN
     /\ pool' = IF pool # <<>> THEN SubSeq(pool, 1, Len(pool) - 1) ELSE pool
     /\ nextId' = IF pool # <<>> THEN nextId ELSE nextId + 1
     /\ holds' = [holds EXCEPT ![c] = b]
     /\ content' = [content EXCEPT ![b] = c]
  /\ pc' = [pc EXCEPT ![c] = "built"] /\ nmsg' = [nmsg EXCEPT ![c] = @ + 1]
  /\ UNCHANGED <<wref, got>>

\* flushFrame(final): c.write(frame) entered -- the frame slice points into the buffer
StartWrite(c) ==
  /\ pc[c] = "built"
  /\ wref' = [wref EXCEPT ![c] = holds[c]]
  /\ pc' = [pc EXCEPT ![c] = "writing"]
  /\ IF ReleaseEarly THEN pool' = Append(pool, holds[c]) /\ holds' = [holds EXCEPT ![c] = 0]
                     ELSE UNCHANGED <<pool, holds>>
  /\ UNCHANGED <<content, got, nmsg, nextId>>

\* the network has consumed the bytes; endMessage returns the buffer
FinishWrite(c) ==
  /\ pc[c] = "writing"
  /\ got' = [got EXCEPT ![c] = Append(@, content[wref[c]])]
  /\ wref' = [wref EXCEPT ![c] = 0]
  /\ pc' = [pc EXCEPT ![c] = "idle"]
  /\ IF ReleaseEarly THEN UNCHANGED <<pool, holds>>
                     ELSE pool' = Append(pool, holds[c]) /\ holds' = [holds EXCEPT ![c] = 0]
  /\ UNCHANGED <<content, nmsg, nextId>>

Next == \E c \in Conns : Begin(c) \/ StartWrite(c) \/ FinishWrite(c)
Spec == Init /\ [][Next]_vars

OwnBytes  == \A c \in Conns : \A i \in 1..Len(got[c]) : got[c][i] = c
Exclusive == \A c \in Conns : pc[c] = "writing" =>
               /\ \A i \in 1..Len(pool) : pool[i] # wref[c]
               /\ \A d \in Conns \ {c} : holds[d] # wref[c] /\ wref[d] # wref[c]
=============================================================================
