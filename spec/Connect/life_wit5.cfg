SPECIFICATION Spec
CONSTANTS
  Conns = {1, 2}
  MaxEnv = 2
  Urgent = TRUE
  Guard = TRUE
  SS = TRUE
  Exp = {}
  Pushes = FALSE
INVARIANTS Wit5
CHECK_DEADLOCK FALSE
