SPECIFICATION Spec
CONSTANTS
  Nodes = {"n2"}
  Extra = {}
  MaxSurveys = 3
  MaxDeliver = 4
  LocalModes = {"sync", "never"}
  DupOK = TRUE
  Causal = TRUE
  LocalSend = "nonblocking"
VIEW View
INVARIANTS TypeOK HeardAreReturned RegistryIsInFlight RegistryEmptyAfterAll ResultsAreOwnAnswers ReturnedIsCollected WaitsOnlyWhileIncomplete EndsForAReason ErrIffDeadline NoStuckSurvey NoBlockedCallback CanFinish
CHECK_DEADLOCK FALSE
