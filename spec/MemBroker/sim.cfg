SPECIFICATION SimSpec
CONSTANTS
  Sizes = {1, 2, 3}
  TTLs = {1, 2, 3}
  MetaTTLs = {0, 2, 3}
  Versions = {0, 1, 2, 3}
  VerEpochs = {"", "va", "vb"}
  IdemKeys = {"", "k1", "k2"}
  IdemTTLs = {1, 2}
  Limits <- LimitsBig
  MaxNow = 6
  MaxPubs = 6
  MaxOps = 12
  Deterministic = TRUE
INVARIANTS TypeOK
PROPERTIES HistoryIsRetainedSuffix
CHECK_DEADLOCK FALSE
