--------------------------- MODULE DissolveTrace ---------------------------
(* Trace validation for C40: executions of the REAL dissolve.Dissolver recorded
   by harness/writer `dissolve`.  The jobs are closures that log their own start
   and end (with the result they return); the harness logs the beginning and end
   of its Submit and Close calls.  One counter under one mutex numbers the
   events.  Everything else (the actual enqueue inside Submit, the workers'
   Wait / Remove / Closed / re-Add, the moment Close takes effect) is composed as
   silent steps; the workers are anonymous in the log, TLC picks the worker.
   A "Cfg" event starts each trace: workers = number of workers started by Run(). *)
EXTENDS Dissolve, Json, IOUtils

Trace == ndJsonDeserialize("trace.ndjson")

VARIABLE l
tvars == <<vars, l>>

Ev == Trace[l]
IsEvent(e) == l <= Len(Trace) /\ Ev.ev = e /\ l' = l + 1

TSubB == IsEvent("SubB") /\ S_Begin(Ev.j)
TSubE == IsEvent("SubE") /\ S_End /\ sjob = Ev.j /\ sres = Ev.ok
TStart == IsEvent("Start") /\ \E w \in Workers : W_Start(w) /\ wjob[w] = Ev.j
TEnd == IsEvent("End") /\ \E w \in Workers : W_End(w, Ev.ok) /\ wjob[w] = Ev.j
TCloseB == IsEvent("CloseB") /\ C_Begin
TCloseE == IsEvent("CloseE") /\ C_End
TSilent == Silent /\ UNCHANGED l

TReset ==
  /\ IsEvent("Cfg")
  /\ q' = <<>> /\ closed' = FALSE
  /\ \E S \in SUBSET Workers :          \* the workers Run() started (anonymous: Workers is a symmetry set, see trace.cfg)
       /\ Cardinality(S) = Ev.workers
       /\ wpc' = [w \in Workers |-> IF w \in S THEN "wait" ELSE "exit"]
  /\ wjob' = [w \in Workers |-> NoJob]
  /\ spc' = "idle" /\ sjob' = NoJob /\ sres' = FALSE
  /\ cpc' = "idle"
  /\ submitted' = {} /\ fails' = [j \in Jobs |-> 0] /\ done' = [j \in Jobs |-> FALSE]
  /\ lateStarts' = [w \in Workers |-> 0] /\ discarded' = {}
  /\ step' = [act |-> "Init"]

TraceInit == Init /\ l = 1 /\ TLCSet(1, 0)
TraceNext == TSubB \/ TSubE \/ TStart \/ TEnd \/ TCloseB \/ TCloseE \/ TSilent \/ TReset
TraceSpec == TraceInit /\ [][TraceNext]_tvars

HighWater == TLCSet(1, IF TLCGet(1) < l - 1 THEN l - 1 ELSE TLCGet(1))
TraceAccepted ==
  IF TLCGet(1) = Len(Trace) THEN TRUE
  ELSE /\ PrintT(<<"TRACE-PREFIX", TLCGet(1), "of", Len(Trace)>>)
       /\ FALSE

TraceView == <<core, l>>
Perms == Permutations(Workers)
=============================================================================
