------------------------------ MODULE MapLimits ------------------------------
(* C37 on the map subscribe path ("connection limits are enforced for every way a connection gains a subscription"):
   handleMapSubscribeCommand -> validateSubscribeRequest for EVERY map subscribe command.  A command is a continuation
   (exempt from the limits) only when a reservation (c.mapSubscribing[channel]) exists; otherwise it STARTS a
   subscription, whatever its shape:
     "state0"     STATE phase, no cursor                      -> first page, reservation installed
     "stateCur"   STATE phase with a cursor, no reservation   -> permission denied (after the limits were checked)
     "streamRec"  STREAM phase with recover                   -> reservation created on the fly, goes live
     "liveRec"    LIVE phase with recover (recovery join)     -> goes live
     "stream"     a regular (non-map) subscribe               -> subscribed
   A starting command is refused with "bad request" when the channel name is longer than ChannelMaxLength and with
   "limit exceeded" when the connection already holds ClientChannelLimit channels (subscriptions + reservations).

   Validate = "all": the code as it is.  Validate = "state0": witness - only the STATE first page is validated
   ("later-phase requests were validated when the subscription started"): a subscription that starts in a later phase
   escapes both limits.                                                                                          *)
EXTENDS Naturals, FiniteSets

CONSTANTS Chans, Long, L, MaxOps, Validate

ErrPermissionDenied == 103
ErrLimitExceeded == 106
ErrBadRequest == 107

VARIABLES status, nops, step
vars == <<status, nops, step>>

Shapes == {"stream", "state0", "stateCur", "streamRec", "liveRec"}
Held == {ch \in Chans : status[ch] # "none"}

Init == status = [ch \in Chans |-> "none"] /\ nops = 0 /\ step = [act |-> "Init"]

Validated(shape) == Validate = "all" \/ shape \in {"stream", "state0"}

Sub(shape, ch) ==
  /\ nops < MaxOps /\ nops' = nops + 1
  /\ status[ch] # "sub"
  /\ IF status[ch] = "resv"
       THEN \* continuation of the reservation: never limited; every continuation shape finishes the catch-up here
            /\ shape \in {"stateCur", "streamRec", "liveRec"}
            /\ status' = [status EXCEPT ![ch] = "sub"]
            /\ step' = [act |-> "Sub", shape |-> shape, ch |-> ch, cont |-> TRUE, res |-> "live"]
       ELSE IF Validated(shape) /\ ch \in Long
              THEN UNCHANGED status /\ step' = [act |-> "Sub", shape |-> shape, ch |-> ch, cont |-> FALSE, res |-> "err", code |-> ErrBadRequest]
            ELSE IF Validated(shape) /\ Cardinality(Held) >= L
              THEN UNCHANGED status /\ step' = [act |-> "Sub", shape |-> shape, ch |-> ch, cont |-> FALSE, res |-> "err", code |-> ErrLimitExceeded]
            ELSE IF shape = "stateCur"
              THEN UNCHANGED status /\ step' = [act |-> "Sub", shape |-> shape, ch |-> ch, cont |-> FALSE, res |-> "err", code |-> ErrPermissionDenied]
            ELSE IF shape = "state0"
              THEN status' = [status EXCEPT ![ch] = "resv"] /\ step' = [act |-> "Sub", shape |-> shape, ch |-> ch, cont |-> FALSE, res |-> "page"]
            ELSE status' = [status EXCEPT ![ch] = "sub"] /\ step' = [act |-> "Sub", shape |-> shape, ch |-> ch, cont |-> FALSE, res |-> "live"]

Unsub(ch) ==
  /\ nops < MaxOps /\ nops' = nops + 1
  /\ status[ch] = "sub"
  /\ status' = [status EXCEPT ![ch] = "none"]
  /\ step' = [act |-> "Unsub", ch |-> ch]

Next == (\E s \in Shapes, ch \in Chans : Sub(s, ch)) \/ (\E ch \in Chans : Unsub(ch))
Spec == Init /\ [][Next]_vars

\* C37 (map part): at most L channels held (subscriptions + reservations), none with an over-long name
C37M == Cardinality(Held) <= L /\ Held \cap Long = {}
TypeOK == nops <= MaxOps
View == <<status, nops>>
=============================================================================
