------------------------------ MODULE Filter ------------------------------
(* C15  Tags filter evaluation matches its specification.

   This module is the REFERENCE DEFINITION of the tags-filter language of
   centrifuge (internal/filter/filter.go, protocol.FilterNode), written from
   the language definition in the property statement and the field
   documentation of protocol.FilterNode -- not from the steps of the Go code:

     * a leaf compares the value of ONE tag with its operand(s);
       a missing key equals no value and is in no set:
         eq, in, sw, ew, ct, ex, gt, gte, lt, lte  are FALSE on a missing key,
         neq = ~eq, nin = ~in, nex = ~ex           are TRUE  on a missing key;
     * numeric comparisons (gt gte lt lte) agree with exact decimal comparison
       when both the tag value and the operand are numerals the engine accepts,
       and are FALSE otherwise;
     * and / or / not are the boolean connectives over the children;
     * validation accepts exactly the well-formed trees (WF below);
     * matching a validated tree never errors (Defined below);
     * the hash is equal for structurally equal trees (checked by the harness:
       TLA+ values ARE structural, there is nothing to state here).

   NUMERALS.  The engine parses with github.com/quagmt/udecimal v1.10.1
   (udecimal.Parse, default ParseModeError).  Read from bint.go/parseBint:

        numeral ::= [ "+" | "-" ]  digit+  [ "." digit{1,19} ]
        digit   ::= "0" .. "9"           (ASCII only)       length <= 200 bytes

   so: leading zeros allowed ("01" = 1), "+1" = 1, "-0" = "+0" = 0, no exponent
   ("1e3"), no leading/trailing dot (".5", "1."), no blanks, no "_" , no hex/Inf/
   NaN, at most 19 fractional digits ("0.<19 zeros>1" is NOT a numeral), the
   integer part is unbounded (u64, u128 and big.Int paths of the engine).  The
   value of a numeral is the rational it denotes; comparison is exact.
   (udecimal quirk outside the enumerated bounds, reported, not part of this
   grammar: for inputs longer than 41 bytes the big.Int path also accepts
   "-+<digits>" because big.Int.SetString takes a sign.)

   STRINGS are sequences of one-character strings (TLC cannot index a TLA+
   string): "1.0" is <<"1", ".", "0">>, "" is <<>>.  Keys and operator names
   are ordinary TLA+ strings.  The runner joins the characters before the rows
   reach the Go harness.

   A NODE mirrors protocol.FilterNode:
        [op, key, cmp, val, vals, nodes]
   A TAG MAP is a sequence of [k, v] records with pairwise different k (a
   function would print the empty key as an empty record field name).

   ENUMERATION (mechanism F, DESIGN 4.4): Init picks (tree, tags) from five
   bounded classes, res = [valid, match, cls]; Next stutters; `-dump` is the
   table replayed into the real filter.Validate / filter.Match / filter.Hash. *)
EXTENDS Integers, Sequences, FiniteSets

VARIABLES tree, tags, res
vars == <<tree, tags, res>>

---------------------------------------------------------------------------
(* --- strings -------------------------------------------------------------- *)

Rep(c, n) == [i \in 1..n |-> c]

IsPrefix(p, s) == Len(p) <= Len(s) /\ SubSeq(s, 1, Len(p)) = p
IsSuffix(p, s) == Len(p) <= Len(s) /\ SubSeq(s, Len(s) - Len(p) + 1, Len(s)) = p
IsInfix(p, s)  == \E i \in 1..(Len(s) - Len(p) + 1) : SubSeq(s, i, i + Len(p) - 1) = p

---------------------------------------------------------------------------
(* --- numerals: the accepted grammar and exact decimal comparison ---------- *)

Digit == {"0", "1", "2", "3", "4", "5", "6", "7", "8", "9"}
DV(c) == CASE c = "0" -> 0 [] c = "1" -> 1 [] c = "2" -> 2 [] c = "3" -> 3 [] c = "4" -> 4
           [] c = "5" -> 5 [] c = "6" -> 6 [] c = "7" -> 7 [] c = "8" -> 8 [] c = "9" -> 9

AllDigits(s) == \A i \in 1..Len(s) : s[i] \in Digit

RECURSIVE StripLead0(_)
StripLead0(s) == IF s # <<>> /\ Head(s) = "0" THEN StripLead0(Tail(s)) ELSE s
RECURSIVE StripTrail0(_)
StripTrail0(s) == IF s # <<>> /\ s[Len(s)] = "0" THEN StripTrail0(SubSeq(s, 1, Len(s) - 1)) ELSE s

MaxNumeralLen  == 200
MaxFracDigits  == 19

NotANumeral == [ok |-> FALSE, neg |-> FALSE, ip |-> <<>>, fp |-> <<>>]

\* Numeral(s): ok iff s is in the grammar; then the value is
\*   (-1)^neg * ( ip . fp )   with ip without leading zeros (<<>> = 0) and
\*   fp without trailing zeros; zero is never negative.
Numeral(s) ==
  LET signed == s # <<>> /\ s[1] \in {"+", "-"}
      body   == IF signed THEN Tail(s) ELSE s
      dots   == {i \in 1..Len(body) : body[i] = "."}
      p      == IF dots = {} THEN Len(body) + 1 ELSE CHOOSE i \in dots : TRUE
      ipart  == SubSeq(body, 1, p - 1)
      fpart  == SubSeq(body, p + 1, Len(body))
      inGrammar == /\ Len(s) <= MaxNumeralLen
                   /\ Cardinality(dots) <= 1
                   /\ ipart # <<>> /\ AllDigits(ipart)
                   /\ dots # {} => (fpart # <<>> /\ AllDigits(fpart) /\ Len(fpart) <= MaxFracDigits)
      mi == StripLead0(ipart)
      mf == StripTrail0(fpart)
  IN IF ~inGrammar THEN NotANumeral
     ELSE [ok |-> TRUE, neg |-> (s[1] = "-" /\ (mi # <<>> \/ mf # <<>>)), ip |-> mi, fp |-> mf]

\* position-wise comparison of digit strings, a missing digit counts as 0
RECURSIVE DigCmp(_, _)
DigCmp(a, b) ==
  IF a = <<>> /\ b = <<>> THEN 0
  ELSE LET x == IF a = <<>> THEN 0 ELSE DV(Head(a))
           y == IF b = <<>> THEN 0 ELSE DV(Head(b))
       IN IF x < y THEN -1 ELSE IF x > y THEN 1
          ELSE DigCmp(IF a = <<>> THEN a ELSE Tail(a), IF b = <<>> THEN b ELSE Tail(b))

MagCmp(a, b) ==
  IF Len(a.ip) # Len(b.ip) THEN (IF Len(a.ip) < Len(b.ip) THEN -1 ELSE 1)
  ELSE LET c == DigCmp(a.ip, b.ip) IN IF c # 0 THEN c ELSE DigCmp(a.fp, b.fp)

\* exact comparison of two numerals: -1, 0, 1
NumCmp(a, b) ==
  IF a.neg # b.neg THEN (IF a.neg THEN -1 ELSE 1)
  ELSE IF a.neg THEN 0 - MagCmp(a, b) ELSE MagCmp(a, b)

\* --- an independent second formulation for small numerals (scaled integers),
\*     used only to cross-check NumCmp (ASSUME NumeralCrossCheck below)
RECURSIVE NatOf(_)
NatOf(s) == IF s = <<>> THEN 0 ELSE NatOf(SubSeq(s, 1, Len(s) - 1)) * 10 + DV(s[Len(s)])
Pow10(n) == CASE n = 0 -> 1 [] n = 1 -> 10 [] n = 2 -> 100 [] n = 3 -> 1000
IsSmall(n)  == n.ok /\ Len(n.ip) <= 4 /\ Len(n.fp) <= 3
Scaled(n)   == (IF n.neg THEN -1 ELSE 1) * (NatOf(n.ip) * 1000 + NatOf(n.fp) * Pow10(3 - Len(n.fp)))
Sign(i)     == IF i < 0 THEN -1 ELSE IF i > 0 THEN 1 ELSE 0

---------------------------------------------------------------------------
(* --- nodes and tag maps ----------------------------------------------------- *)

Node(op, key, cmp, val, vals, nodes) ==
  [op |-> op, key |-> key, cmp |-> cmp, val |-> val, vals |-> vals, nodes |-> nodes]
Leaf(key, cmp, val, vals) == Node("", key, cmp, val, vals, <<>>)
Logic(op, nodes)          == Node(op, "", "", <<>>, <<>>, nodes)

ValOps == {"eq", "neq", "sw", "ew", "ct", "gt", "gte", "lt", "lte"}   \* one operand: val
SetOps == {"in", "nin"}                                               \* operand list: vals
KeyOps == {"ex", "nex"}                                               \* no operand
NumOps == {"gt", "gte", "lt", "lte"}
Cmps   == ValOps \cup SetOps \cup KeyOps

Present(t, key) == \E i \in 1..Len(t) : t[i].k = key
ValueOf(t, key) == t[CHOOSE i \in 1..Len(t) : t[i].k = key].v

---------------------------------------------------------------------------
(* --- the language ----------------------------------------------------------- *)

NumRel(cmp, c) == CASE cmp = "gt"  -> c > 0
                    [] cmp = "gte" -> c >= 0
                    [] cmp = "lt"  -> c < 0
                    [] cmp = "lte" -> c <= 0

\* the positive atoms; all of them need the key to be present
Equals(f, t)   == Present(t, f.key) /\ ValueOf(t, f.key) = f.val
Member(f, t)   == Present(t, f.key) /\ \E i \in 1..Len(f.vals) : f.vals[i] = ValueOf(t, f.key)
NumHolds(f, t) == /\ Present(t, f.key)
                  /\ LET a == Numeral(ValueOf(t, f.key))
                         b == Numeral(f.val)
                     IN a.ok /\ b.ok /\ NumRel(f.cmp, NumCmp(a, b))

LeafHolds(f, t) ==
  CASE f.cmp = "eq"  -> Equals(f, t)
    [] f.cmp = "neq" -> ~Equals(f, t)
    [] f.cmp = "in"  -> Member(f, t)
    [] f.cmp = "nin" -> ~Member(f, t)
    [] f.cmp = "ex"  -> Present(t, f.key)
    [] f.cmp = "nex" -> ~Present(t, f.key)
    [] f.cmp = "sw"  -> Present(t, f.key) /\ IsPrefix(f.val, ValueOf(t, f.key))
    [] f.cmp = "ew"  -> Present(t, f.key) /\ IsSuffix(f.val, ValueOf(t, f.key))
    [] f.cmp = "ct"  -> Present(t, f.key) /\ IsInfix(f.val, ValueOf(t, f.key))
    [] f.cmp \in NumOps -> NumHolds(f, t)

\* Match: the truth value of a tree under a tag map (meaningful on Defined trees)
RECURSIVE Match(_, _)
Match(f, t) ==
  CASE f.op = ""    -> LeafHolds(f, t)
    [] f.op = "and" -> \A i \in 1..Len(f.nodes) : Match(f.nodes[i], t)
    [] f.op = "or"  -> \E i \in 1..Len(f.nodes) : Match(f.nodes[i], t)
    [] f.op = "not" -> ~Match(f.nodes[1], t)

\* Defined: Match has a value (no unknown operator, `not` has its operand)
RECURSIVE Defined(_)
Defined(f) ==
  CASE f.op = ""             -> f.cmp \in Cmps
    [] f.op \in {"and", "or"} -> \A i \in 1..Len(f.nodes) : Defined(f.nodes[i])
    [] f.op = "not"          -> Len(f.nodes) = 1 /\ Defined(f.nodes[1])
    [] OTHER                 -> FALSE

\* Validate: well-formed trees.  A leaf has a known comparison with exactly the
\* operand kind of that comparison present (an empty string is "not present":
\* proto3 cannot tell them apart) and names a key -- ex/nex may ask for the
\* empty key (taken from the code: the language definition is silent on it);
\* and/or have at least one child, not exactly one; children well-formed.
RECURSIVE Validate(_)
Validate(f) ==
  CASE f.op = "" ->
         /\ f.cmp \in Cmps
         /\ f.cmp \in ValOps => (f.val # <<>> /\ f.vals = <<>>)
         /\ f.cmp \in SetOps => (f.vals # <<>> /\ f.val = <<>>)
         /\ f.cmp \in KeyOps => (f.val = <<>> /\ f.vals = <<>>)
         /\ (f.key # "" \/ f.cmp \in KeyOps)
    [] f.op \in {"and", "or"} -> Len(f.nodes) >= 1 /\ \A i \in 1..Len(f.nodes) : Validate(f.nodes[i])
    [] f.op = "not"          -> Len(f.nodes) = 1 /\ Validate(f.nodes[1])
    [] OTHER                 -> FALSE

---------------------------------------------------------------------------
(* --- value sets (selected by quick.cfg / thorough.cfg through  X <- XQuick) -- *)

s_     == <<>>
s_a    == <<"a">>
s_b    == <<"b">>
s_ab   == <<"a", "b">>
s_ba   == <<"b", "a">>
s_aba  == <<"a", "b", "a">>
s_dot  == <<".">>
s_1    == <<"1">>
s_1p0  == <<"1", ".", "0">>
s_01   == <<"0", "1">>
s_m1   == <<"-", "1">>
s_1e3  == <<"1", "e", "3">>
s_x1   == <<"x", "1">>
s_2    == <<"2">>
s_10   == <<"1", "0">>

\* tag values and single operands of class A
ValsQuick    == {s_, s_a, s_ab, s_ba, s_dot, s_1, s_1p0, s_01, s_m1, s_1e3, s_x1, s_2, s_10}
ValsThorough == ValsQuick \cup {s_b, s_aba, <<"A">>, <<" ">>, <<"1", ".", "5">>, <<"0">>, <<"a", "1">>}

\* elements of operand lists (in / nin) of class A
SetValsQuick    == {s_, s_a, s_1}
SetValsThorough == {s_, s_a, s_1, s_1p0}

\* numeric edge numerals (class N): both sides of gt/gte/lt/lte range over them
NumEdgeQuick ==
  { s_, s_a, s_1, s_1p0, s_01, s_m1, s_1e3, s_x1, s_2, s_10, s_dot,
    <<"0">>, <<"-", "0">>, <<"+", "0">>, <<"+", "1">>, <<"0", "0">>,
    <<"1", ".">>, <<".", "5">>, <<"-", ".", "5">>, <<"0", ".", "5">>, <<"-", "0", ".", "5">>,
    <<"1", ".", "5">>, <<"1", ".", "5", "0">>, <<"-", "1", ".", "5">>, <<"0", ".", "0", "5">>,
    <<"-">>, <<"+">>, <<"-", "-", "1">>, <<"+", "-", "1">>, <<"1", ".", ".", "0">>, <<"1", ".", "0", ".", "0">>,
    <<" ", "1">>, <<"1", " ">>, <<"1", "_", "0">>, <<"0", "x", "1">>, <<"1", ",", "0">>,
    <<"9">>, <<"-", "1", "0">>, <<"-", "2">>,
    \* beyond uint64 (20+ digits), beyond u128 (40 digits), direct big.Int path (> 41 bytes)
    <<"1">> \o Rep("0", 20), <<"1">> \o Rep("0", 19) \o <<"1">>, Rep("9", 20), <<"-", "1">> \o Rep("0", 20),
    <<"1">> \o Rep("0", 39), Rep("9", 39), <<"1">> \o Rep("0", 45), <<"1">> \o Rep("0", 44) \o <<".", "5">>,
    \* 19 fractional digits are a numeral, 20 are not
    <<"0", ".">> \o Rep("0", 18) \o <<"1">>, <<"0", ".">> \o Rep("0", 19) \o <<"1">>,
    <<"1", ".">> \o Rep("0", 19), <<"1", ".">> \o Rep("0", 18) \o <<"1">> }
NumEdgeThorough ==
  NumEdgeQuick \cup
  { <<"I", "n", "f">>, <<"N", "a", "N">>, <<"1", "E", "3">>, <<"1", "e", "-", "3">>, <<"0", "1", ".", "5", "0">>,
    <<"+", "1", ".", "5">>, <<"-", "0", ".", "0">>, <<"0", ".", "0">>, <<"1", "0", ".", "0">>, <<"9", ".", "9">>,
    <<"1", "0", "0">>, <<"9", "9">>, <<"-", "9", "9">>, <<"-", "1", "0", "0">>, <<"0", ".", "1">>, <<"0", ".", "1", "0">>,
    <<"0", ".", "0", "9">>, <<"+">> \o Rep("9", 20), <<"-">> \o Rep("9", 39), <<"9">> \o Rep("0", 38),
    Rep("9", 19), <<"1">> \o Rep("0", 18), <<"1">> \o Rep("0", 19),
    <<"1">> \o Rep("0", 20) \o <<".", "5">>, <<"1">> \o Rep("0", 20) \o <<".">> \o Rep("0", 18) \o <<"1">>,
    Rep("9", 22) \o <<".">> \o Rep("9", 19), Rep("9", 22) \o <<".">> \o Rep("9", 20),
    Rep("1", 200), Rep("1", 201), <<"-">> \o Rep("1", 199), <<"-">> \o Rep("1", 200) }

CONSTANTS
  Vals,        \* tag values / single operands, class A
  SetVals,     \* operand-list elements, class A
  NumEdge,     \* numerals of class N
  ArityB,      \* 2: up to two children in class B; 3: also every triple over the core leaves
  WideB,       \* TRUE: the larger leaf set for class B
  WideC        \* TRUE: the larger leaf set for class C

SeqsUpTo(S, n) == UNION {[1..m -> S] : m \in 0..n}
Tag1(key, S)   == {<<[k |-> key, v |-> v]>> : v \in S}

---------------------------------------------------------------------------
(* --- class A: every leaf shape (well-formed and malformed) x tag maps ------- *)

CmpsAll == Cmps \cup {"", "bad"}
KeysA   == {"k", ""}

LeavesA ==
       {Leaf(k, c, v, <<>>)            : k \in KeysA, c \in CmpsAll, v \in Vals}
  \cup {Leaf(k, c, <<>>, vs)           : k \in KeysA, c \in CmpsAll, vs \in SeqsUpTo(SetVals, 2) \ {<<>>}}
  \cup {Leaf(k, c, s_a, <<s_a>>)       : k \in KeysA, c \in CmpsAll}

TagsA ==
       {<<>>}
  \cup Tag1("k", Vals)
  \cup Tag1("j", {s_, s_a})                                      \* k absent from a non-empty map
  \cup Tag1("", {s_a})                                           \* the empty key present
  \cup {<<[k |-> "j", v |-> s_a], [k |-> "k", v |-> x]>> : x \in {s_, s_a, s_1}}

(* --- class N: numeric comparisons over the edge numerals -------------------- *)

LeavesN == {Leaf("k", c, v, <<>>) : c \in NumOps, v \in NumEdge}
TagsN   == Tag1("k", NumEdge)

(* --- class B: one logical node over leaves ---------------------------------- *)

Ops    == {"and", "or", "not"}
OpsAll == Ops \cup {"xor"}

L1Core ==
  { Leaf("k", "eq", s_a, <<>>),  Leaf("k", "neq", s_a, <<>>),
    Leaf("k", "sw", s_a, <<>>),  Leaf("k", "ew", s_a, <<>>),  Leaf("k", "ct", s_a, <<>>),
    Leaf("k", "gt", s_1, <<>>),  Leaf("k", "gte", s_1, <<>>), Leaf("k", "lt", s_1, <<>>), Leaf("k", "lte", s_1, <<>>),
    Leaf("k", "in", <<>>, <<s_>>),       Leaf("k", "nin", <<>>, <<s_>>),
    Leaf("k", "in", <<>>, <<s_a, s_1>>), Leaf("k", "nin", <<>>, <<s_a, s_1>>),
    Leaf("k", "ex", <<>>, <<>>),         Leaf("k", "nex", <<>>, <<>>),
    Leaf("k", "eq", <<>>, <<>>),         Leaf("k", "bad", s_a, <<>>) }          \* two malformed leaves
L1Wide == L1Core \cup
  { Leaf("k", "eq", s_1, <<>>),  Leaf("k", "neq", s_1, <<>>), Leaf("k", "ct", s_1, <<>>),
    Leaf("k", "gt", s_a, <<>>),  Leaf("k", "lte", s_1p0, <<>>),
    Leaf("j", "ex", <<>>, <<>>), Leaf("j", "nin", <<>>, <<s_a>>), Leaf("", "nex", <<>>, <<>>),
    Leaf("", "eq", s_a, <<>>) }
L1 == IF WideB THEN L1Wide ELSE L1Core

TreesB ==      {Logic(op, cs) : op \in OpsAll, cs \in SeqsUpTo(L1, 2)}
          \cup (IF ArityB >= 3 THEN {Logic(op, cs) : op \in OpsAll, cs \in [1..3 -> L1Core]} ELSE {})
TagsB  == {<<>>} \cup Tag1("k", {s_, s_a, s_ab, s_1, s_2, s_x1})
                 \cup (IF WideB THEN Tag1("j", {s_a}) \cup {<<[k |-> "j", v |-> s_a], [k |-> "k", v |-> s_a]>>} ELSE {})

(* --- class C: two levels of logical nodes ----------------------------------- *)

L2Core == { Leaf("k", "eq", s_a, <<>>), Leaf("k", "nin", <<>>, <<s_>>), Leaf("k", "gt", s_1, <<>>) }
L2Wide == L2Core \cup { Leaf("k", "in", <<>>, <<s_, s_a>>), Leaf("k", "nex", <<>>, <<>>) }
L2 == IF WideC THEN L2Wide ELSE L2Core

Inner  ==      {Logic("not", <<l>>) : l \in L2}
          \cup {Logic(op, <<a, b>>) : op \in {"and", "or"}, a \in L2, b \in L2}
          \cup {Logic("and", <<>>)}                                   \* one malformed inner node
KidsC  == Inner \cup L2
TreesC == {Logic(op, cs) : op \in Ops,
                           cs \in {c \in SeqsUpTo(KidsC, 2) : \E i \in 1..Len(c) : c[i] \in Inner}}
TagsC  == {<<>>} \cup Tag1("k", {s_, s_a, s_1, s_2})

(* --- class D: three children (the third child must count) ------------------- *)

KidsD  == L2 \cup {Leaf("k", "bad", s_a, <<>>)}
TreesD == {Logic(op, cs) : op \in OpsAll, cs \in [1..3 -> KidsD]}

---------------------------------------------------------------------------
(* --- the table -------------------------------------------------------------- *)

Depth(f) == IF f.op = "" THEN 0
            ELSE IF \E i \in 1..Len(f.nodes) : f.nodes[i].op # "" THEN 2 ELSE 1

\* class of a row: names the failing input class in violation signatures
Cls(f, t) ==
  IF ~Validate(f) THEN "malformed"
  ELSE IF f.op # "" THEN (IF Depth(f) = 1 THEN "depth1" ELSE "depth2")
  ELSE IF ~Present(t, f.key) THEN "absent-key"
  ELSE IF f.cmp \in NumOps
         THEN (IF Numeral(ValueOf(t, f.key)).ok /\ Numeral(f.val).ok THEN "numerals" ELSE "non-numeral")
  ELSE "present-key"

Res(f, t) == [valid |-> Validate(f), match |-> (Validate(f) /\ Match(f, t)), cls |-> Cls(f, t)]

Init == /\ \/ tree \in LeavesA /\ tags \in TagsA
           \/ tree \in LeavesN /\ tags \in TagsN
           \/ tree \in TreesB  /\ tags \in TagsB
           \/ tree \in TreesC  /\ tags \in TagsC
           \/ tree \in TreesD  /\ tags \in TagsC
        /\ res = Res(tree, tags)
Next == UNCHANGED vars
Spec == Init /\ [][Next]_vars

---------------------------------------------------------------------------
(* --- theorems of the language, checked by TLC on every enumerated row ------- *)

IsLeaf == tree.op = ""
With(f, c) == [f EXCEPT !.cmp = c]

\* a missing key equals no value and is in no set
ThAbsentKey ==
  (IsLeaf /\ Validate(tree) /\ ~Present(tags, tree.key))
    => (Match(tree, tags) <=> tree.cmp \in {"neq", "nin", "nex"})

\* neq / nin / nex are the complements of eq / in / ex on every tag map
ThDuals ==
  (IsLeaf /\ Validate(tree)) =>
     /\ tree.cmp = "eq" => Match(With(tree, "neq"), tags) = ~Match(tree, tags)
     /\ tree.cmp = "in" => Match(With(tree, "nin"), tags) = ~Match(tree, tags)
     /\ tree.cmp = "ex" => Match(With(tree, "nex"), tags) = ~Match(tree, tags)
     /\ tree.cmp = "eq" => (Match(tree, tags) => /\ Match(With(tree, "sw"), tags)
                                                  /\ Match(With(tree, "ew"), tags)
                                                  /\ Match(With(tree, "ct"), tags))
     /\ tree.cmp \in {"sw", "ew"} => (Match(tree, tags) => Match(With(tree, "ct"), tags))

\* numeric comparisons: trichotomy on numerals, all false otherwise
ThNumeric ==
  (IsLeaf /\ Validate(tree) /\ tree.cmp \in NumOps /\ Present(tags, tree.key)) =>
     LET a  == Numeral(ValueOf(tags, tree.key))
         b  == Numeral(tree.val)
         gt == Match(With(tree, "gt"), tags)   ge == Match(With(tree, "gte"), tags)
         lt == Match(With(tree, "lt"), tags)   le == Match(With(tree, "lte"), tags)
     IN IF a.ok /\ b.ok
          THEN /\ ge = ~lt /\ le = ~gt /\ ~(gt /\ lt)
               /\ (ge /\ le) = (NumCmp(a, b) = 0)
               /\ NumCmp(a, b) = 0 - NumCmp(b, a)
               /\ (IsSmall(a) /\ IsSmall(b)) => NumCmp(a, b) = Sign(Scaled(a) - Scaled(b))
          ELSE ~gt /\ ~ge /\ ~lt /\ ~le

\* and / or / not are the boolean connectives (consequences of the definition
\* evaluated on constructed trees: double negation, De Morgan, unit laws)
ThConnectives ==
  (~IsLeaf /\ Validate(tree)) =>
     LET n  == Len(tree.nodes)
         kv == [i \in 1..n |-> Match(tree.nodes[i], tags)]
         negs == [i \in 1..n |-> Logic("not", <<tree.nodes[i]>>)]
     IN /\ tree.op = "not" => Match(tree, tags) = ~kv[1]
        /\ tree.op = "and" => Match(tree, tags) = (\A i \in 1..n : kv[i])
        /\ tree.op = "or"  => Match(tree, tags) = (\E i \in 1..n : kv[i])
        /\ Match(Logic("not", <<Logic("not", <<tree>>)>>), tags) = Match(tree, tags)
        /\ tree.op = "and" => Match(Logic("not", <<tree>>), tags) = Match(Logic("or", negs), tags)
        /\ tree.op = "or"  => Match(Logic("not", <<tree>>), tags) = Match(Logic("and", negs), tags)
        /\ tree.op \in {"and", "or"} /\ n = 1 => Match(tree, tags) = kv[1]

\* matching a validated tree never errors; validation implies definedness of all subtrees
ThTotal == Validate(tree) => (Defined(tree) /\ Match(tree, tags) \in BOOLEAN)

\* the table is what the operators say (and the classes are the intended ones)
ThTable == /\ res.valid = Validate(tree)
           /\ res.valid => res.match = Match(tree, tags)
           /\ ~res.valid => (res.match = FALSE /\ res.cls = "malformed")

\* cross-check of the digit-string comparison against scaled integers (constant level)
NumeralCrossCheck ==
  \A x \in NumEdge, y \in NumEdge :
     LET a == Numeral(x)  b == Numeral(y)
     IN (IsSmall(a) /\ IsSmall(b)) => NumCmp(a, b) = Sign(Scaled(a) - Scaled(b))

\* the numeral grammar on spot values (constant level): documents the grammar
NumeralSpotCheck ==
  /\ Numeral(s_1).ok /\ Numeral(s_1p0).ok /\ Numeral(s_01).ok /\ Numeral(s_m1).ok /\ Numeral(s_10).ok
  /\ Numeral(<<"+", "1">>).ok /\ Numeral(<<"-", "0">>).ok /\ ~Numeral(<<"-", "0">>).neg
  /\ ~Numeral(s_).ok /\ ~Numeral(s_a).ok /\ ~Numeral(s_1e3).ok /\ ~Numeral(s_x1).ok /\ ~Numeral(s_dot).ok
  /\ ~Numeral(<<"1", ".">>).ok /\ ~Numeral(<<".", "5">>).ok /\ ~Numeral(<<"-">>).ok /\ ~Numeral(<<"+", "-", "1">>).ok
  /\ Numeral(<<"0", ".">> \o Rep("0", 18) \o <<"1">>).ok /\ ~Numeral(<<"0", ".">> \o Rep("0", 19) \o <<"1">>).ok
  /\ Numeral(Rep("1", 200)).ok /\ ~Numeral(Rep("1", 201)).ok
  /\ NumCmp(Numeral(s_1), Numeral(s_1p0)) = 0 /\ NumCmp(Numeral(s_01), Numeral(s_1)) = 0
  /\ NumCmp(Numeral(s_2), Numeral(s_10)) = -1 /\ NumCmp(Numeral(s_m1), Numeral(<<"-", "2">>)) = 1
  /\ NumCmp(Numeral(<<"-", "0">>), Numeral(<<"0">>)) = 0
  /\ NumCmp(Numeral(Rep("9", 20)), Numeral(<<"1">> \o Rep("0", 20))) = -1

ASSUME NumeralCrossCheck
ASSUME NumeralSpotCheck
=============================================================================
