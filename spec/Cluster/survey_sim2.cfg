SPECIFICATION Spec
CONSTANTS
  Nodes = {"n2"}
  Extra = {"x"}
  MaxSurveys = 2
  MaxDeliver = 7
  LocalModes = {"sync", "async", "never"}
  DupOK = TRUE
  Causal = TRUE
  LocalSend = "nonblocking"
CHECK_DEADLOCK FALSE
