"""C37 -- spec/Limits: channel limit (reservations count), over-long channel names, queue size => slow close."""
from lib import vf


def c37(c):
    quick = c.tier == 'quick'
    r = c.tlc_exhaustive('Limits', 'Limits', 'quick.cfg' if quick else 'thorough.cfg', workers=4, timeout=1200)
    c.log('TLC exhaustive: %d distinct / %d generated' % (r['distinct'], r['states']))
    s = c.tlc('Limits', 'Limits', 'sim.cfg', simulate=600 if quick else 6000, depth=14, timeout=600)
    if not s['ok']:
        raise vf.Inconclusive('simulation: %s' % s['out'][-2000:])
    behs = c.behaviours(s)
    binp = c.go_build('limits')
    res = c.harness(binp, 'replay', {'l': 2, 'qmax': 3, 'behaviours': behs}, timeout=900)
    c.absorb(res)
    for mode, arg in (('burst', {'rounds': 150 if quick else 1500, 'l': 2}), ('timermode', {'qmax': 3, 'n': 2 if quick else 8})):
        pr = c.harness(binp, mode, arg, timeout=600)
        c.absorb(pr)
        res['completed'] += pr['completed']
        res['executed'] += pr['executed']
        c.cov[mode + '_probe'] = {'executed': pr['executed'], 'counters': pr['counters']}
    c.cov['traces_validated_against_impl'] = res['completed']
    c.cov['evaluations'] = res['executed']
    c.cov['distinct_nontrivial'] = res['nontrivial']
    c.cov['samples'] = res['samples'][:2]
    c.cov['unit_bytes'] = res['extra'].get('unit_bytes')
    c.cov['rule'] = 'TLC -simulate behaviours of Limits.tla (3 channels, limit 2, queue limit 3 pushes) replayed on a real client with asynchronous subscribe callbacks; non-trivial = completed behaviour, distinct by step list'
    # map subscriptions have their own entry (handleMapSubscribeCommand): spec/MapSub/MapLimits.tla
    from fam import mapsub
    rule = c.cov['rule']
    mapsub.c37_map(c)
    c.cov['rule'] = rule + ' || map subscribe commands: ' + str(c.cov.get('rule') if c.cov.get('rule') != rule else 'MapLimits.tla behaviours replayed on a real node (every first-command shape, limit 2, name bound 8)')
    c.assumptions += ['ClientQueueMaxSize set to exactly 3 encoded publication pushes (measured), writer parked in Transport.Write with one frame in flight',
                      'map subscriptions (mapSubscribing also counts towards the limit) are not exercised here']


CHECKS = {'C37': c37}
META = {'C37': dict(level='model_checking',
                    text='Limits.tla models the reservation-counting channel limit for client-side (limit-exceeded error) and server-side (disconnect) subscribes, the channel-name length check and queue growth against ClientQueueMaxSize; TLC checks the invariants exhaustively and hundreds of simulated behaviours are replayed on a real client (several reservations in flight through asynchronous callbacks; writer parked inside Transport.Write so the queue size is exact, boundary at exactly the limit).',
                    note='Bounds: 3 channels, limit 2, <=6/8 operations exhaustive, <=12 in replay. Trusted: TLC, harness.',
                    technique='TLA+ spec + TLC exhaustive; behaviour replay on a real client; result comparison')}
