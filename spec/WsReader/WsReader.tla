------------------------------ MODULE WsReader ------------------------------
(* C29  WebSocket frame reader conforms to RFC 6455 and RFC 7692.

   The conforming decoder as a TLA+ state machine: `Step` consumes one
   abstract frame in reader state `st`, `Run` folds it over the input; the
   transition relation IS the RFC (every failing branch cites its clause).
   TLC enumerates every input of the bounded abstract alphabet (Init), the
   decoder's result `res` is the expected observable behaviour, and a set of
   invariants restates the property declaratively and independently of the
   order of the checks in `Step` (rule table `V`, FIN-delimited reassembly,
   pings answered, limits).  The (inp, res) table is replayed by
   harness/wsreader into a real internal/websocket Conn (server and client
   side): the harness serialises the abstract frames to bytes with its own
   frame writer and compares delivered messages, bytes written back and the
   error class.

   Abstract frame  [op, fin, rsv, mok, len, pc, cc]
     op   "cont" "text" "bin" "close" "ping" "pong"
          "rsvd" (reserved non-control opcode 3..7) "rsvc" (reserved control 11..15)
     fin  FIN bit
     rsv  "none" | "r1" (RSV1 only) | "rx" (RSV2 and/or RSV3, RSV1 clear)
     mok  the MASK bit is the one required for the direction (RFC 6455 5.1:
          client->server masked, server->client not masked); the harness runs
          every row on a server-side and on a client-side Conn
     len  payload length and its encoding (data, ping, pong):
          "0" "S"(5) "125" 7-bit | "126" 16-bit form | "64k" 65536, 64-bit form |
          "nm16" 5 bytes in the 16-bit form | "nm64" 5 bytes in the 64-bit form |
          "msb" 64-bit form with the most significant bit set |
          "max63" 64-bit form announcing 2^63-1 bytes (msb clear: a valid header); the peer
          cannot send that much, the stream always ends after a few payload bytes
          close frames: "cl" (length follows from pc)
     pc   payload class.  close: "empty" | "one" (1 byte) | "code" (2 bytes) |
          "reason" (code + UTF-8 text) | "max125" (code + 123 bytes = 125) |
          "badutf8" (code + invalid UTF-8) | "long" (126 bytes, 16-bit form).
          first frame of a compressed message (text/bin with RSV1): "lit" valid
          deflate stream, "bad" invalid deflate data, "bomb" valid stream that
          inflates to >= 259 bytes ("bad"/"bomb" only on unfragmented messages).
          otherwise "plain".
     cc   close code carried (close frames with a body of >= 2 bytes; else 0)

   Connection parameters p = [comp, rl, dl]: permessage-deflate negotiated,
   read limit on the wire size of a message (0 = none), limit on the inflated
   size (0 = none).  tr = truncation of the LAST frame: "none" | "hdr" (stream
   ends inside the frame header) | "pay" (header complete, payload cut).

   Scope (as the statement): framing-level conformance, the two read limits,
   never panics.  UTF-8 validity of TEXT payloads is not part of the statement
   and the Go reader does not check it: not modelled (payloads are ASCII).     *)
EXTENDS Integers, Sequences, FiniteSets, SequencesExt, FiniteSetsExt, TLC

CONSTANT Tier          \* "quick" | "thorough" : which blocks of inputs Init enumerates

VARIABLES inp, res
vars == <<inp, res>>

---------------------------------------------------------------------------
(* --- sizes -------------------------------------------------------------- *)

\* TLC integers are 32 bit: Huge stands for 2^63-1 (larger than any limit and any sum of the other sizes;
\* a "max63" frame is always the last one, so at most one Huge enters a sum)
Huge == 1000000000
Sz(l) == CASE l = "0" -> 0 [] l = "S" -> 5 [] l = "125" -> 125 [] l = "126" -> 126
           [] l = "64k" -> 65536 [] l = "nm16" -> 5 [] l = "nm64" -> 5 [] l = "msb" -> 5
           [] l = "max63" -> Huge

CloseLen(pc) == CASE pc = "empty" -> 0 [] pc = "one" -> 1 [] pc = "code" -> 2 [] pc = "reason" -> 7
                  [] pc = "max125" -> 125 [] pc = "badutf8" -> 4 [] pc = "long" -> 126

WireLen(f) == IF f.op = "close" THEN CloseLen(f.pc) ELSE Sz(f.len)

IsData(f) == f.op \in {"text", "bin", "cont"}
IsCtl(f)  == f.op \in {"close", "ping", "pong"}

\* RFC 6455 7.4.1 (defined codes 1000-1003, 1007-1011; 1004 reserved; 1005, 1006, 1015 MUST NOT be
\* set as a status code in a Close frame) and 7.4.2 (0-999 not used; 1000-2999 reserved for the
\* protocol: only the defined ones are valid; 3000-3999 registered, 4000-4999 private use).
\* Codes registered with IANA after the RFC (1012-1014) and codes >= 5000 are not in the alphabet.
ValidCloseCode(c) == c \in {1000, 1001, 1002, 1003, 1007, 1008, 1009, 1010, 1011} \/ (c >= 3000 /\ c <= 4999)
TestCodes == {0, 999, 1000, 1001, 1002, 1003, 1004, 1005, 1006, 1007, 1008, 1009, 1010, 1011,
              1015, 1016, 2999, 3000, 3999, 4000, 4999}

\* Size of the inflated message for a compressed message of n wire bytes (the harness's deflate
\* writer: "lit" = one fixed-Huffman block of n-2 literals + sync marker, n = 1 is the empty message
\* 0x00 of RFC 7692 7.2.3.6; "bomb" = literal + (length 258, distance 1) matches, lower bound).
Inflated(pcl, n) == IF pcl = "bomb" THEN 1 + 258 * ((8 * n - 21) \div 13)
                    ELSE IF n <= 1 THEN 0 ELSE n - 2
\* what the first n bytes of a longer "lit" stream already inflate to (3 header bits, then 8 bits per literal)
PartialInflated(pcl, n) == IF pcl = "bomb" THEN Inflated(pcl, n) ELSE IF n = 0 THEN 0 ELSE n - 1

---------------------------------------------------------------------------
(* --- the rule table (used by the property and to prune the enumeration) --- *)

\* the rule table: the clauses of the two RFCs a single frame can violate in its context
V(f, inMsg, p) ==
       (IF f.rsv = "rx" THEN {"rsv23"} ELSE {})                                        \* 6455 5.2
  \cup (IF f.rsv = "r1" /\ ~p.comp THEN {"rsv1-noext"} ELSE {})                        \* 6455 5.2
  \cup (IF f.rsv = "r1" /\ p.comp /\ IsCtl(f) THEN {"rsv1-ctl"} ELSE {})               \* 7692 6
  \cup (IF f.rsv = "r1" /\ p.comp /\ f.op = "cont" THEN {"rsv1-cont"} ELSE {})         \* 7692 6
  \cup (IF f.op \in {"rsvd", "rsvc"} THEN {"opcode"} ELSE {})                          \* 6455 5.2
  \cup (IF ~f.mok THEN {"mask"} ELSE {})                                               \* 6455 5.1
  \cup (IF IsCtl(f) /\ ~f.fin THEN {"ctl-frag"} ELSE {})                               \* 6455 5.5
  \cup (IF IsCtl(f) /\ (WireLen(f) > 125 \/ f.len \in {"126", "64k"}) THEN {"ctl-len"} ELSE {})   \* 6455 5.5
  \cup (IF f.len \in {"nm16", "nm64"} THEN {"len-nonmin"} ELSE {})                     \* 6455 5.2
  \cup (IF f.len = "msb" THEN {"len-msb"} ELSE {})                                     \* 6455 5.2
  \cup (IF f.op = "cont" /\ ~inMsg THEN {"cont-nomsg"} ELSE {})                        \* 6455 5.4
  \cup (IF f.op \in {"text", "bin"} /\ inMsg THEN {"data-inmsg"} ELSE {})              \* 6455 5.4
  \cup (IF f.op = "close" /\ f.pc = "one" THEN {"close-1byte"} ELSE {})                \* 6455 5.5.1
  \cup (IF f.op = "close" /\ f.pc \notin {"empty", "one"} /\ ~ValidCloseCode(f.cc) THEN {"close-code"} ELSE {})   \* 6455 7.4
  \cup (IF f.op = "close" /\ f.pc = "badutf8" THEN {"close-utf8"} ELSE {})             \* 6455 5.5.1, 8.1

---------------------------------------------------------------------------
(* --- the decoder --------------------------------------------------------- *)

St0 == [kind |-> "run", alt |-> {}, at |-> 0, codes |-> {}, rcode |-> 0, why |-> {},
        inMsg |-> FALSE, typ |-> "none", comp |-> FALSE, pcl |-> "plain", acc |-> 0, parts |-> <<>>,
        delivered |-> <<>>, pongs |-> <<>>]

\* terminal outcomes.  codes = close codes the reader may send with this outcome.
\*   "proto"   protocol error: error to the application + Close 1002 (RFC 6455 7.4.1 "1002 indicates
\*             that an endpoint is terminating the connection due to a protocol error")
\*   "toobig"  a read limit is exceeded: error + Close 1009 (7.4.1 "received a message that is too big")
\*   "closed"  a valid Close was received: error carrying the received code (1005 when the frame had no
\*             body, 7.1.5) + a Close frame in response (5.5.1 "MUST send a Close frame in response",
\*             "typically echos the status code it received")
\*   "eof"     the stream ended without a Close frame (7.1.5: 1006 abnormal closure), nothing to send
\*   "baddata" the deflate data of a complete compressed message is invalid: error, message not
\*             delivered; RFC 7692 defines no status code (a Close, if any, is 1007 or 1002)
\*   "unspec"  point where neither RFC fixes the behaviour (see DataStep); only the prefix is compared
Fail(st, i, k, codes, alt, why) ==
  [st EXCEPT !.kind = k, !.at = i, !.codes = codes, !.alt = alt, !.why = why]

DataStep(st, f, i, p) ==
  LET first == f.op # "cont"
      comp  == IF first THEN f.rsv = "r1" ELSE st.comp        \* RFC 7692 6: RSV1 of the FIRST frame
      pcl   == IF first THEN f.pc ELSE st.pcl
      typ   == IF first THEN f.op ELSE st.typ                  \* RFC 6455 5.4: type from the first frame
      acc   == (IF first THEN 0 ELSE st.acc) + WireLen(f)
      parts == Append(IF first THEN <<>> ELSE st.parts, i)
  IN
  IF p.rl > 0 /\ acc > p.rl
    \* wire size of the message > read limit; the announced length counts (the limit exists so that the
    \* bytes are not read), also when the sum of the fragments is astronomically large
    THEN Fail(st, i, "toobig", {1009}, {}, IF f.len = "max63" THEN {"len-max63"} ELSE {})
  ELSE IF f.len = "max63"
    \* no limit: the frame is accepted and the stream ends inside its payload (a reader whose counter
    \* cannot hold the message size may as well answer 1009)
    THEN Fail(st, i, "eof", {}, {"toobig"}, {"len-max63"})
  ELSE IF ~f.fin THEN
    IF comp /\ p.dl > 0 /\ PartialInflated(pcl, acc) > p.dl
      \* the unfinished message already inflates beyond the limit: WHEN a streaming decoder reports it
      \* (now, at a later frame, at the end of the message) is not fixed by anything
      THEN Fail(st, i, "unspec", {}, {}, {})
      ELSE [st EXCEPT !.inMsg = TRUE, !.typ = typ, !.comp = comp, !.pcl = pcl, !.acc = acc, !.parts = parts]
  ELSE \* FIN: the message is complete (RFC 6455 5.4)
    IF comp /\ acc = 0
      \* RFC 7692 7.2.3.6: an empty message is sent as 0x00; a zero-length compressed payload makes
      \* the inflater run out of input, which implementations treat differently: unspecified
      THEN Fail(st, i, "unspec", {}, {}, {})
    ELSE IF comp /\ pcl = "bad"
      THEN Fail(st, i, "baddata", {}, {}, {})
    ELSE IF comp /\ p.dl > 0 /\ Inflated(pcl, acc) > p.dl
      THEN Fail(st, i, "toobig", {1009}, {}, {})               \* inflated size > decompressed limit
    ELSE [st EXCEPT !.inMsg = FALSE, !.typ = "none", !.comp = FALSE, !.pcl = "plain", !.acc = 0, !.parts = <<>>,
                    !.delivered = Append(@, [typ |-> typ, parts |-> parts, comp |-> comp])]

Step(st, f, i, p) ==
  LET n     == WireLen(f)
      \* the frame is both a violation and beyond the read limit: either rejection is conforming
      \* (a 64-bit length with the top bit set is beyond any limit: Close 1009 is as good as 1002)
      over  == IsData(f) /\ ((p.rl > 0 /\ f.len # "msb" /\ (IF f.op = "cont" THEN st.acc ELSE 0) + n > p.rl)
                             \/ f.len = "msb")
      Proto(w) == Fail(st, i, "proto", {1002}, IF over THEN {"toobig"} ELSE {}, {w})
  IN
  \* RFC 6455 5.2: RSV1-3 "MUST be 0 unless an extension is negotiated that defines meanings for
  \* non-zero values ... the receiving endpoint MUST _Fail the WebSocket Connection_"
  IF f.rsv = "rx" THEN Proto("rsv23")
  ELSE IF f.rsv = "r1" /\ ~p.comp THEN Proto("rsv1-noext")
  \* RFC 6455 5.2: "If an unknown opcode is received, the receiving endpoint MUST _Fail the
  \* WebSocket Connection_" (3-7 and 11-15 are reserved)
  ELSE IF f.op \in {"rsvd", "rsvc"} THEN Proto("opcode")
  \* RFC 7692 6: "An endpoint MUST NOT set the "Per-Message Compressed" bit of control frames and
  \* non-first fragments of a data message.  An endpoint receiving such a frame MUST _Fail the
  \* WebSocket Connection_."
  ELSE IF f.rsv = "r1" /\ IsCtl(f) THEN Proto("rsv1-ctl")
  ELSE IF f.rsv = "r1" /\ f.op = "cont" THEN Proto("rsv1-cont")
  \* RFC 6455 5.1: "The server MUST close the connection upon receiving a frame that is not masked
  \* ... MAY send a Close frame with a status code of 1002"; "A client MUST close a connection if it
  \* detects a masked frame"
  ELSE IF ~f.mok THEN Proto("mask")
  \* RFC 6455 5.5: "All control frames MUST have a payload length of 125 bytes or less and MUST NOT
  \* be fragmented."
  ELSE IF IsCtl(f) /\ ~f.fin THEN Proto("ctl-frag")
  ELSE IF IsCtl(f) /\ (n > 125 \/ f.len \in {"126", "64k"}) THEN Proto("ctl-len")
  \* RFC 6455 5.2 (payload length): "the minimal number of bytes MUST be used to encode the length";
  \* 64-bit form: "the most significant bit MUST be 0"
  ELSE IF f.len \in {"nm16", "nm64"} THEN Proto("len-nonmin")
  ELSE IF f.len = "msb" THEN Proto("len-msb")
  \* RFC 6455 5.4: a continuation frame needs a started message; "The fragments of one message MUST
  \* NOT be interleaved between the fragments of another message"
  ELSE IF f.op = "cont" /\ ~st.inMsg THEN Proto("cont-nomsg")
  ELSE IF f.op \in {"text", "bin"} /\ st.inMsg THEN Proto("data-inmsg")
  ELSE IF IsData(f) THEN DataStep(st, f, i, p)
  \* RFC 6455 5.4 "Control frames MAY be injected in the middle of a fragmented message";
  \* 5.5.2 "Upon receipt of a Ping frame, an endpoint MUST send a Pong frame in response";
  \* 5.5.3 "MUST have identical Application data"; an unsolicited Pong needs no response
  ELSE IF f.op = "ping" THEN [st EXCEPT !.pongs = Append(@, i)]
  ELSE IF f.op = "pong" THEN st
  \* Close.  RFC 6455 5.5.1: "If there is a body, the first two bytes of the body MUST be a 2-byte
  \* unsigned integer"; 7.4: the code must be one an endpoint may send; 5.5.1/8.1: the reason is UTF-8,
  \* invalid UTF-8 => _Fail the WebSocket Connection_ (1002 as a malformed frame or 1007)
  ELSE IF f.pc = "one" THEN Proto("close-1byte")
  ELSE IF f.pc = "empty" THEN [Fail(st, i, "closed", {1005}, {}, {}) EXCEPT !.rcode = 1005]
  ELSE IF ~ValidCloseCode(f.cc) THEN Proto("close-code")
  ELSE IF f.pc = "badutf8" THEN Fail(st, i, "proto", {1002, 1007}, {}, {"close-utf8"})
  ELSE [Fail(st, i, "closed", {f.cc}, {}, {}) EXCEPT !.rcode = f.cc]

RECURSIVE Fold(_, _, _)
Fold(in, st, i) ==
  IF st.kind # "run" THEN st
  ELSE IF i > Len(in.fr) THEN [st EXCEPT !.kind = "eof", !.at = i]
  ELSE IF i = Len(in.fr) /\ in.tr # "none" THEN
    \* the stream ends inside frame i: abnormal closure; a decoder that already judged the part it
    \* has seen (header checks, limits) may report that instead
    LET s2 == Step(st, in.fr[i], i, in.p) IN
    [st EXCEPT !.kind = "eof", !.at = i,
               !.alt = IF s2.kind \in {"proto", "toobig", "baddata", "unspec"} THEN {s2.kind} \cup s2.alt ELSE {},
               !.why = s2.why]
  ELSE Fold(in, Step(st, in.fr[i], i, in.p), i + 1)

Run(in) ==
  LET s == Fold(in, St0, 1) IN
  [kind |-> s.kind, alt |-> s.alt, at |-> s.at, codes |-> s.codes, rcode |-> s.rcode, why |-> s.why,
   delivered |-> s.delivered, pongs |-> s.pongs]

---------------------------------------------------------------------------
(* --- the abstract alphabet ---------------------------------------------- *)

Fr(op, fin, rsv, len) ==
  [op |-> op, fin |-> fin, rsv |-> rsv, mok |-> TRUE, len |-> len,
   pc |-> IF rsv = "r1" /\ op \in {"text", "bin"} THEN "lit" ELSE "plain", cc |-> 0]
Cl(pc, cc, fin, rsv) ==
  [op |-> "close", fin |-> fin, rsv |-> rsv, mok |-> TRUE, len |-> "cl", pc |-> pc, cc |-> cc]
BadMask(f)  == [f EXCEPT !.mok = FALSE]
Pay(f, pc)  == [f EXCEPT !.pc = pc]

B == BOOLEAN

\* core alphabet (sequences of 3 and 4)
A3 ==    {Fr(o, fin, r, "S") : o \in {"text", "cont"}, fin \in B, r \in {"none", "r1"}}
   \cup  {Fr("bin", TRUE, "none", "S"), Fr("text", FALSE, "none", "125"), Fr("cont", TRUE, "none", "0"),
          Fr("text", TRUE, "rx", "S"), Fr("rsvd", TRUE, "none", "S"),
          BadMask(Fr("text", TRUE, "none", "S")), Pay(Fr("text", TRUE, "r1", "S"), "bomb")}
   \cup  {Fr("ping", TRUE, "none", "S"), Fr("ping", TRUE, "r1", "S"), Fr("ping", FALSE, "none", "S"),
          Fr("pong", TRUE, "none", "S"), Fr("ping", TRUE, "none", "126")}
   \cup  {Cl("code", 1000, TRUE, "none"), Cl("one", 0, TRUE, "none"), Cl("empty", 0, TRUE, "none")}

\* medium alphabet (sequences of 2)
A2 == A3
   \cup  {Fr("bin", fin, r, "S") : fin \in B, r \in {"none", "r1"}}
   \cup  {Fr("text", TRUE, "none", l) : l \in {"0", "125", "126", "64k", "nm16", "nm64", "msb"}}
   \cup  {Fr("text", FALSE, "none", l) : l \in {"0", "126"}}
   \cup  {Fr("cont", TRUE, "none", l) : l \in {"125", "126", "nm16", "msb"}}
   \cup  {Fr("cont", FALSE, "none", l) : l \in {"0", "125"}}
   \cup  {Fr("text", fin, "r1", l) : fin \in B, l \in {"0", "125", "126"}}
   \cup  {Fr("cont", TRUE, "rx", "S"), Fr("cont", FALSE, "r1", "0"), Fr("cont", TRUE, "r1", "0")}
   \cup  {Pay(Fr("text", TRUE, "r1", "S"), "bad"), Pay(Fr("text", TRUE, "r1", "125"), "bomb")}
   \cup  {Fr(o, TRUE, "none", l) : o \in {"ping", "pong"}, l \in {"0", "125", "126", "nm16"}}
   \cup  {Fr("pong", TRUE, "r1", "S"), Fr("pong", FALSE, "none", "S"), Fr("ping", TRUE, "rx", "S"),
          Fr("ping", FALSE, "r1", "0"), BadMask(Fr("ping", TRUE, "none", "S"))}
   \cup  {Fr("rsvc", TRUE, "none", "0"), Fr("rsvd", FALSE, "none", "0")}
   \cup  {Cl("code", 1005, TRUE, "none"), Cl("reason", 1000, TRUE, "none"), Cl("max125", 1001, TRUE, "none"),
          Cl("badutf8", 1000, TRUE, "none"), Cl("long", 1000, TRUE, "none"), Cl("reason", 2999, TRUE, "none"),
          Cl("code", 1000, TRUE, "r1"), Cl("code", 1000, FALSE, "none"), Cl("code", 3000, TRUE, "none")}

\* full alphabet (single frames; second frame of 2-sequences in the thorough tier)
Lens == {"0", "S", "125", "126", "64k", "nm16", "nm64", "msb"}
A1 == A2
   \cup  {Fr(o, fin, r, l) : o \in {"text", "bin", "cont"}, fin \in B, r \in {"none", "r1", "rx"}, l \in Lens}
   \cup  {Fr(o, fin, r, l) : o \in {"ping", "pong"}, fin \in B, r \in {"none", "r1", "rx"},
                             l \in {"0", "S", "125", "126", "64k", "nm16"}}
   \cup  {Fr(o, fin, "none", l) : o \in {"rsvd", "rsvc"}, fin \in B, l \in {"0", "S"}}
   \cup  {Fr("rsvd", TRUE, "r1", "S"), Fr("rsvc", TRUE, "r1", "S")}
   \cup  {BadMask(Fr(o, TRUE, "none", "S")) : o \in {"text", "bin", "cont", "ping", "pong", "rsvd"}}
   \cup  {BadMask(Cl("code", 1000, TRUE, "none"))}
   \cup  {Pay(Fr(o, TRUE, "r1", l), pc) : o \in {"text", "bin"}, l \in {"S", "125"}, pc \in {"bad", "bomb"}}
   \cup  {Cl(pc, c, TRUE, "none") : pc \in {"code", "reason", "max125"}, c \in TestCodes}
   \cup  {Cl(pc, IF pc \in {"empty", "one"} THEN 0 ELSE 1000, fin, r) :
             pc \in {"empty", "one", "code", "badutf8", "long"}, fin \in B, r \in {"none", "r1", "rx"}}
   \cup  {Cl("badutf8", 1005, TRUE, "none"), Cl("long", 1005, TRUE, "none")}

\* frames announcing 2^63-1 bytes: first and continuation position, FIN or not, compressed or not
AH == {Fr(o, fin, "none", "max63") : o \in {"text", "bin", "cont"}, fin \in B} \cup {Fr("text", FALSE, "r1", "max63")}

AlphabetOK ==
  /\ A3 \subseteq A2 /\ A2 \subseteq A1
  /\ \A f \in A1 :
       /\ f.pc \in {"bad", "bomb"} => (f.fin /\ f.op \in {"text", "bin"} /\ f.rsv = "r1")
       /\ f.pc = "lit" <=> (f.op \in {"text", "bin"} /\ f.rsv = "r1" /\ f.pc \notin {"bad", "bomb"})
       /\ f.op = "close" <=> f.len = "cl"
       /\ (f.op = "close" /\ f.pc \in {"empty", "one"}) => f.cc = 0
ASSUME AlphabetOK

\* connection parameters: both limits off; wire limit only; compression with the limits as
\* handler_websocket.go always sets them (rl = 130 = 125+5 exactly fits; dl = 128 is exactly the
\* inflated size of a 130-byte "lit" message, dl = 127 is one byte less)
P(c, rl, dl) == [comp |-> c, rl |-> rl, dl |-> dl]
ParamsAll == {P(FALSE, 0, 0), P(FALSE, 130, 0), P(TRUE, 0, 0), P(TRUE, 130, 128), P(TRUE, 130, 127)}
ParamsTwo == {P(FALSE, 0, 0), P(TRUE, 130, 127)}
ParamsRL  == {p \in ParamsAll : p.rl > 0}
Truncs    == {"none", "hdr", "pay"}

\* (IF, not a disjunction: TLC would enumerate an initial state once per true disjunct)
TrOK(s, t) == IF t = "none" THEN TRUE
              ELSE IF Len(s) = 0 THEN FALSE
              ELSE IF t = "pay" THEN WireLen(s[Len(s)]) > 0 ELSE TRUE

Pick(S, T, PS) == \E s \in S, t \in T, p \in PS : TrOK(s, t) /\ inp = [fr |-> s, tr |-> t, p |-> p]

\* Frames that stop the decoder in every context (a violation whatever the state and the parameters, or a
\* Close) are enumerated in the LAST position only: what follows them is never looked at.
AlwaysStops(f) == f.op = "close" \/ f.len = "max63" \/ \A p \in ParamsAll, m \in BOOLEAN : V(f, m, p) # {}
Cont(A) == {f \in A : ~AlwaysStops(f)}
C2 == Cont(A2)
C3 == Cont(A3)

InitQuick ==
  \/ Pick({<<>>}, {"none"}, ParamsAll)
  \/ Pick({<<a>> : a \in A1}, Truncs, ParamsAll)
  \/ Pick({<<a, b>> : a \in C2, b \in A2}, {"none"}, ParamsAll)
  \/ Pick({<<a, b>> : a \in C3, b \in A3}, {"hdr", "pay"}, ParamsAll)
  \/ Pick({<<a, b, c>> : a \in C3, b \in C3, c \in A3}, {"none"}, ParamsAll)
  \/ Pick({<<h>> : h \in AH}, {"none"}, ParamsRL)
  \/ Pick({<<a, h>> : a \in C2, h \in AH}, {"none"}, ParamsRL)

InitThorough ==
  \/ Pick({<<>>}, {"none"}, ParamsAll)
  \/ Pick({<<a>> : a \in A1}, Truncs, ParamsAll)
  \/ Pick({<<a, b>> : a \in C2, b \in A1}, {"none"}, ParamsAll)
  \/ Pick({<<a, b>> : a \in C2, b \in A2}, {"hdr", "pay"}, ParamsAll)
  \/ Pick({<<a, b, c>> : a \in C3, b \in C2, c \in A2}, {"none"}, ParamsAll)
  \/ Pick({<<a, b, c, d>> : a \in C3, b \in C3, c \in C3, d \in A3}, {"none"}, ParamsTwo)
  \/ Pick({<<h>> : h \in AH}, {"none"}, ParamsRL)
  \/ Pick({<<a, h>> : a \in C2, h \in AH}, {"none"}, ParamsRL)
  \/ Pick({<<a, b, h>> : a \in C3, b \in C3, h \in AH}, {"none"}, ParamsRL)

\* Two steps per input so that TLC's workers share the evaluation of the decoder and of the
\* invariants (initial states are computed by one thread): Init picks the input, Decode runs the decoder.
Pending == [kind |-> "pending"]
Done    == res.kind # "pending"
Init == /\ IF Tier = "quick" THEN InitQuick ELSE InitThorough
        /\ res = Pending
Decode == /\ res = Pending
          /\ res' = Run(inp)
          /\ UNCHANGED inp
Next == Decode
Spec == Init /\ [][Next]_vars

---------------------------------------------------------------------------
(* --- the property, restated independently of the decoder's steps --------- *)

F  == inp.fr
N  == Len(F)
K  == res.at                      \* frame at which the decoder stopped; N+1 = clean end of stream
PP == inp.p
Truncated == K = N /\ (inp.tr # "none" \/ (F[N].len = "max63" /\ res.kind = "eof"))

Max0(S) == IF S = {} THEN 0 ELSE Max(S)
DataBefore(k) == {j \in 1..(k - 1) : IsData(F[j])}
InMsgBefore(k) == LET d == Max0(DataBefore(k)) IN d # 0 /\ ~F[d].fin
StartOf(j) == Max0({i \in 1..j : F[i].op \in {"text", "bin"}})     \* first frame of the message frame j belongs to
Group(j) == {i \in StartOf(j)..j : IsData(F[i])}
RECURSIVE SumLen(_)
SumLen(S) == IF S = {} THEN 0 ELSE LET x == CHOOSE y \in S : TRUE IN WireLen(F[x]) + SumLen(S \ {x})

TypeOKX ==
  /\ res.kind \in {"eof", "proto", "toobig", "closed", "baddata", "unspec"}
  /\ res.alt \subseteq {"proto", "toobig", "baddata", "unspec"}
  /\ res.at \in 1..(N + 1)
  /\ res.kind = "eof" <=> (K = N + 1 \/ Truncated)

\* every frame the decoder accepted violates nothing; the frame it stopped at with a protocol error
\* violates a clause (no spurious failures); a violating frame always stops it with a protocol error
ViolationsFailX ==
  /\ \A j \in 1..(K - 1) : V(F[j], InMsgBefore(j), PP) = {}
  /\ (K <= N /\ ~Truncated) =>
       LET v == V(F[K], InMsgBefore(K), PP) IN
       /\ v # {} <=> res.kind = "proto"
       /\ res.kind = "proto" => (res.why \subseteq v /\ res.why # {} /\ 1002 \in res.codes)

\* delivered messages are exactly the FIN-delimited reassemblies of the accepted frames, in order,
\* typed by their first frame, compressed iff the first frame carried RSV1; nothing after the stop
Ends == {j \in 1..(K - 1) : IsData(F[j]) /\ F[j].fin}
RefMsg(j) == [typ |-> F[StartOf(j)].op, parts |-> SetToSortSeq(Group(j), <), comp |-> F[StartOf(j)].rsv = "r1"]
RefDelivered == LET e == SetToSortSeq(Ends, <) IN [n \in 1..Len(e) |-> RefMsg(e[n])]
DeliveredAreReassembliesX == res.delivered = RefDelivered

\* a pong for every ping accepted before the stop, in order, and nothing else
PingsAnsweredX == res.pongs = SetToSortSeq({j \in 1..(K - 1) : F[j].op = "ping"}, <)

\* "toobig" only when a limit is set and exceeded by the message the stop frame belongs to;
\* a complete message beyond a limit is never delivered
LimitsEnforcedX ==
  /\ (res.kind = "toobig") =>
       /\ K <= N /\ IsData(F[K]) /\ res.codes = {1009}
       /\ LET w == SumLen(Group(K)) IN
          \/ (PP.rl > 0 /\ w > PP.rl)
          \/ (PP.dl > 0 /\ F[K].fin /\ F[StartOf(K)].rsv = "r1" /\ Inflated(F[StartOf(K)].pc, w) > PP.dl)
  /\ \A n \in 1..Len(res.delivered) :
       LET m == res.delivered[n]
           w == SumLen({m.parts[x] : x \in 1..Len(m.parts)}) IN
       /\ (PP.rl > 0 => w <= PP.rl)
       /\ (m.comp /\ PP.dl > 0) => Inflated(F[m.parts[1]].pc, w) <= PP.dl
       /\ m.comp => (PP.comp /\ F[m.parts[1]].pc # "bad" /\ w > 0)

\* a Close is answered with a Close carrying the received code; a received code is always a valid one
CloseHandshakeX ==
  res.kind = "closed" =>
    /\ K <= N /\ F[K].op = "close" /\ F[K].fin /\ WireLen(F[K]) <= 125
    /\ res.rcode = (IF F[K].pc = "empty" THEN 1005 ELSE F[K].cc)
    /\ res.codes = {res.rcode}
    /\ (res.rcode # 1005 => ValidCloseCode(res.rcode))

\* the invariants TLC checks: the properties above on every decoded input
TypeOK                   == Done => TypeOKX
ViolationsFail           == Done => ViolationsFailX
DeliveredAreReassemblies == Done => DeliveredAreReassembliesX
PingsAnswered            == Done => PingsAnsweredX
LimitsEnforced           == Done => LimitsEnforcedX
CloseHandshake           == Done => CloseHandshakeX
=============================================================================
