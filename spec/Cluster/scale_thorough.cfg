SPECIFICATION Spec
CONSTANTS
  Counts = {1, 2, 7, 8, 9, 11, 13, 15, 16, 17, 23, 33}
INVARIANTS EveryMatchingConnectionIsTouched
CHECK_DEADLOCK FALSE
