//go:build verif

package centrifuge

// VerifSharedPollRevokeKeys exposes SharedPollManager.SharedPollRevokeKeys (the manager hangs off an unexported
// Node field) to the verification harness. Read-only shim: no behaviour of its own.
func VerifSharedPollRevokeKeys(n *Node, channel string, keys []string) {
	if n.sharedPollManager == nil {
		return
	}
	n.sharedPollManager.SharedPollRevokeKeys(channel, keys, nil, nil)
}

// VerifKeyedStats reports, for one shared-poll channel: keys in the SharedPollManager's itemIndex, keys in the
// keyed hub and subscriber entries in the keyed hub. Read-only.
func VerifKeyedStats(n *Node, channel string) (polledKeys int, hubKeys int, hubSubscribers int) {
	if n.sharedPollManager != nil {
		n.sharedPollManager.mu.RLock()
		s, ok := n.sharedPollManager.channels[channel]
		n.sharedPollManager.mu.RUnlock()
		if ok {
			s.mu.Lock()
			polledKeys = len(s.itemIndex)
			s.mu.Unlock()
		}
	}
	if hub := n.keyedManager.getHub(channel); hub != nil {
		hub.mu.RLock()
		hubKeys = len(hub.items)
		for _, subs := range hub.items {
			hubSubscribers += len(subs)
		}
		hub.mu.RUnlock()
	}
	return
}

// VerifClientTrackedKeys returns how many keys of a shared-poll channel the connection's keyed state tracks. Read-only.
func VerifClientTrackedKeys(c *Client, channel string) int {
	c.mu.RLock()
	defer c.mu.RUnlock()
	if c.keyed == nil {
		return 0
	}
	return len(c.keyed.trackedKeys[channel])
}
