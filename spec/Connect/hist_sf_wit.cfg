SPECIFICATION Spec
CONSTANTS
  MaxTop = 3
  Limits <- SFLimits
  Maxes = {2}
  MaxConns = 0
  SinceOffs = {1}
  KeyMode = "nondefault"
INVARIANTS FlightSequential
CHECK_DEADLOCK FALSE
