----------------------------- MODULE MemBroker -----------------------------
(* In-memory stream broker: broker_memory.go (MemoryBroker.Publish/History/
   RemoveHistory, historyHub with its two sweepers, idempotency result cache)
   and internal/memstream/stream.go, for ONE channel (channels are
   independent: every map in the code is keyed by channel).

   Properties decided here: C17 (bounded append-only stream semantics),
   C19 memory half (idempotent / versioned publishes suppress exactly the
   duplicates).

   Time.  The code reads time.Now() directly: stream TTL bookkeeping in Unix
   seconds with sweepers that wake once a second, idempotency results in
   milliseconds.  The model has an integer clock `now` (seconds) advanced by
   Tick; every operation happens "in the middle of second `now`".  A sweeper
   item with priority q is therefore processed at some moment of
   [q, q+1+jitter): an operation in second q may or may not see it, an
   operation in second >= q+1 certainly does.  With Deterministic = TRUE the
   ambiguous seconds are excluded (used to generate behaviours for replay);
   with FALSE both outcomes are explored (design check, trace validation). *)
EXTENDS Integers, Sequences, FiniteSets, TLC

CONSTANTS
  Sizes,          \* history sizes offered to Publish (subset of 1..)
  TTLs,           \* history TTLs in seconds
  MetaTTLs,       \* per-call meta TTL overrides in seconds; 0 = node default (far future)
  Versions,       \* publish versions; 0 = unversioned
  VerEpochs,      \* version epochs ("" = unspecified)
  IdemKeys,       \* idempotency keys; "" = none
  IdemTTLs,       \* idempotency result TTLs in seconds
  Limits,         \* history limits (-1 no limit, 0 position only)
  MaxNow, MaxPubs, MaxOps,
  Deterministic

LimitsSmall == {-1, 0, 1}
LimitsBig == {-1, 0, 1, 2}
Far == 1000                  \* "node default meta TTL": beyond every horizon of the model
NoPos == [off |-> 0, ep |-> 0]

VARIABLES
  ex,       \* stream object exists in historyHub.streams
  top,      \* stream.top
  win,      \* retained window: sequence of [off, id]  (id = identity of the published payload)
  ep,       \* epoch of the current stream object (0 = none yet); epochs are numbered by creation
  epc,      \* number of stream objects created so far
  ver,      \* stream.version  [v, e]
  expAt, expQ,   \* historyHub.expires[ch] (0 = absent) and the priority of its queue item
  remAt, remQ,   \* historyHub.removes[ch] and its queue item
  idem,     \* idempotency result cache: key -> [pos, exp] ; exp is "middle of second exp"
  now,
  npub,     \* publish operations issued (payload identities 1..npub)
  nops,
  handed,   \* what was handed to the BrokerEventHandler by the last step: <<>> or <<[off, id]>>
  step      \* last operation with its arguments, result and the reference answer

core == <<ex, top, win, ep, epc, ver, expAt, expQ, remAt, remQ, idem, now>>
vars == <<core, npub, nops, handed, step>>

---------------------------------------------------------------------------
(* memstream.Stream.Get, branch by branch *)
IndexOf(w, o) == IF \E i \in 1..Len(w) : w[i].off = o
                   THEN CHOOSE i \in 1..Len(w) : w[i].off = o ELSE 0

Take(s, limit) == IF limit < 0 \/ limit >= Len(s) THEN s ELSE SubSeq(s, 1, limit)
Rev(s) == [i \in 1..Len(s) |-> s[Len(s) + 1 - i]]

GetImpl(w, t, offset, useOffset, limit, reverse) ==
  IF useOffset /\ offset >= t + 1 THEN <<>>
  ELSE LET start == IF useOffset
                      THEN (IF IndexOf(w, offset) # 0 THEN IndexOf(w, offset)
                            ELSE IF reverse THEN 0 ELSE (IF Len(w) > 0 THEN 1 ELSE 0))
                      ELSE (IF reverse THEN Len(w) ELSE (IF Len(w) > 0 THEN 1 ELSE 0))
       IN IF start = 0 \/ limit = 0 THEN <<>>
          ELSE IF reverse THEN Take(Rev(SubSeq(w, 1, start)), limit)
          ELSE Take(SubSeq(w, start, Len(w)), limit)

\* uint64 arithmetic of `since.Offset - 1`
Pred(o) == IF o = 0 THEN 1000000 ELSE o - 1

\* historyHub.getLocked on an existing stream
HistImpl(w, t, e, since, limit, reverse) ==
  IF since = NoPos /\ FALSE THEN <<>> ELSE   \* (placeholder keeps the structure of the code visible)
  IF since.has = FALSE
    THEN (IF limit = 0 THEN <<>> ELSE GetImpl(w, t, 0, FALSE, limit, reverse))
    ELSE IF ~reverse /\ t = since.off /\ since.ep = e THEN <<>>
    ELSE GetImpl(w, t, IF reverse THEN Pred(since.off) ELSE since.off + 1, TRUE, limit, reverse)

(* The reference: "history returns the retained suffix filtered by since,
   limit and direction", written without reference to the code's steps.   *)
SelectSeq2(s, P(_)) == SelectSeq(s, P)
RefHist(w, t, since, limit, reverse) ==
  LET cand == IF ~since.has THEN w
              ELSE IF reverse THEN SelectSeq2(w, LAMBDA x : x.off < since.off)
              ELSE SelectSeq2(w, LAMBDA x : x.off > since.off)
  IN IF limit = 0 THEN <<>> ELSE Take(IF reverse THEN Rev(cand) ELSE cand, limit)
\* reverse reads from a position beyond top+1 are outside the statement (the code returns nothing)
RefDefined(t, since, reverse) == ~(since.has /\ reverse /\ since.off > t + 1)

---------------------------------------------------------------------------
Init ==
  /\ ex = FALSE /\ top = 0 /\ win = <<>> /\ ep = 0 /\ epc = 0
  /\ ver = [v |-> 0, e |-> ""]
  /\ expAt = 0 /\ expQ = 0 /\ remAt = 0 /\ remQ = 0
  /\ idem = [k \in {} |-> 0]
  /\ now = 0 /\ npub = 0 /\ nops = 0 /\ handed = <<>>
  /\ step = [act |-> "Init"]

\* "if _, ok := m[ch]; !ok { push(queue, at) }; m[ch] = at"
TouchQ(at, q, newAt) == IF at = 0 THEN newAt ELSE q

ExpDue  == expQ # 0 /\ now >= expQ
RemDue  == remQ # 0 /\ now >= remQ
ExpMust == expQ # 0 /\ now >= expQ + 1
RemMust == remQ # 0 /\ now >= remQ + 1
\* operations run only when no sweep is overdue (and, for replay, not ambiguous)
Settled == ~ExpMust /\ ~RemMust /\ (Deterministic => ~ExpDue /\ ~RemDue)

MetaAt(m) == IF m = 0 THEN Far ELSE now + m

(* ---- sweepers (silent in traces) ---- *)
SweepExpire ==
  /\ IF Deterministic THEN ExpMust ELSE ExpDue
  /\ IF expAt <= expQ
       THEN /\ expAt' = 0 /\ expQ' = 0
            /\ win' = IF ex THEN <<>> ELSE win            \* stream.Clear(): top and epoch stay
       ELSE /\ expQ' = expAt /\ UNCHANGED <<expAt, win>>   \* deadline was extended: re-queue
  /\ UNCHANGED <<ex, top, ep, epc, ver, remAt, remQ, idem, now, npub, nops>>
  /\ handed' = <<>>
  /\ step' = [act |-> "SweepExpire"]

SweepRemove ==
  /\ IF Deterministic THEN RemMust ELSE RemDue
  /\ IF remAt <= remQ
       THEN /\ remAt' = 0 /\ remQ' = 0
            /\ ex' = FALSE /\ top' = 0 /\ win' = <<>> /\ ep' = 0   \* delete(h.streams, ch): metadata discarded
            /\ ver' = [v |-> 0, e |-> ""]
       ELSE /\ remQ' = remAt /\ UNCHANGED <<remAt, ex, top, win, ep, ver>>
  /\ UNCHANGED <<epc, expAt, expQ, idem, now, npub, nops>>
  /\ handed' = <<>>
  /\ step' = [act |-> "SweepRemove"]

Tick ==
  /\ now < MaxNow
  /\ ~ExpMust /\ ~RemMust
  /\ now' = now + 1
  /\ UNCHANGED <<ex, top, win, ep, epc, ver, expAt, expQ, remAt, remQ, idem, npub, nops>>
  /\ handed' = <<>>
  /\ step' = [act |-> "Tick", now |-> now + 1]

(* ---- Publish with history ---- *)
IdemState(k) ==      \* "hit", "miss" or "either" (the two operations fall in the same second)
  IF k = "" \/ k \notin DOMAIN idem THEN "miss"
  ELSE IF now < idem[k].exp THEN "hit"
  ELSE IF now > idem[k].exp THEN "miss" ELSE "either"

Publish(size, ttl, mttl, v, ve, k, kttl) ==
  /\ Settled /\ npub < MaxPubs /\ nops < MaxOps
  /\ npub' = npub + 1 /\ nops' = nops + 1
  /\ LET args == [size |-> size, ttl |-> ttl, mttl |-> mttl, v |-> v, ve |-> ve, k |-> k, kttl |-> kttl, id |-> npub + 1]
     IN
     \/ \* 1. idempotency hit: the cached position, nothing else happens
        /\ IdemState(k) \in {"hit", "either"}
        /\ ~(Deterministic /\ IdemState(k) = "either")
        /\ UNCHANGED core
        /\ handed' = <<>>
        /\ step' = [act |-> "Publish", args |-> args,
                    res |-> [off |-> idem[k].pos.off, ep |-> idem[k].pos.ep, sup |-> "idempotency"]]
     \/ /\ IdemState(k) \in {"miss", "either"}
        /\ ~(Deterministic /\ IdemState(k) = "either")
        /\ \* historyHub.add: expiry and removal bookkeeping happen BEFORE the version check
           /\ expAt' = now + ttl /\ expQ' = TouchQ(expAt, expQ, now + ttl)
           /\ remAt' = MetaAt(mttl) /\ remQ' = TouchQ(remAt, remQ, MetaAt(mttl))
        /\ IF v > 0 /\ ex /\ (ve = "" \/ ve = ver.e) /\ v <= ver.v
             THEN \* 2. version suppression: current top returned, nothing stored, nothing handed on,
                  \*    and (as coded) no idempotency result saved
                  /\ UNCHANGED <<ex, top, win, ep, epc, ver, idem, now>>
                  /\ handed' = <<>>
                  /\ step' = [act |-> "Publish", args |-> args,
                              res |-> [off |-> top, ep |-> ep, sup |-> "version"]]
             ELSE \* 3. stored: offset top+1, trimmed to size
                  LET nep  == IF ex THEN ep ELSE epc + 1
                      ntop == (IF ex THEN top ELSE 0) + 1
                      w0   == Append(IF ex THEN win ELSE <<>>, [off |-> ntop, id |-> npub + 1])
                      nw   == IF Len(w0) > size THEN SubSeq(w0, Len(w0) - size + 1, Len(w0)) ELSE w0
                  IN /\ ex' = TRUE /\ top' = ntop /\ win' = nw /\ ep' = nep
                     /\ epc' = IF ex THEN epc ELSE epc + 1
                     \* C19: an unversioned publish does not reset the stored version
                     /\ ver' = IF v > 0 THEN [v |-> v, e |-> ve] ELSE (IF ex THEN ver ELSE [v |-> 0, e |-> ""])
                     /\ idem' = IF k = "" THEN idem
                                ELSE [x \in DOMAIN idem \cup {k} |->
                                        IF x = k THEN [pos |-> [off |-> ntop, ep |-> nep], exp |-> now + kttl] ELSE idem[x]]
                     /\ now' = now
                     /\ handed' = <<[off |-> ntop, id |-> npub + 1]>>
                     /\ step' = [act |-> "Publish", args |-> args,
                                 res |-> [off |-> ntop, ep |-> nep, sup |-> ""]]

(* ---- History ---- *)
History(since, limit, reverse, mttl) ==
  /\ Settled /\ nops < MaxOps
  /\ nops' = nops + 1
  /\ remAt' = MetaAt(mttl) /\ remQ' = TouchQ(remAt, remQ, MetaAt(mttl))
  /\ LET args == [since |-> since, limit |-> limit, reverse |-> reverse, mttl |-> mttl] IN
     IF ~ex
       THEN \* createStream: a fresh, empty stream with a new epoch
            /\ ex' = TRUE /\ top' = 0 /\ win' = <<>> /\ ep' = epc + 1 /\ epc' = epc + 1
            /\ ver' = [v |-> 0, e |-> ""]
            /\ step' = [act |-> "History", args |-> args,
                        res |-> [pubs |-> <<>>, off |-> 0, ep |-> epc + 1],
                        ref |-> <<>>, refdef |-> TRUE]
       ELSE /\ UNCHANGED <<ex, top, win, ep, epc, ver>>
            /\ step' = [act |-> "History", args |-> args,
                        res |-> [pubs |-> HistImpl(win, top, ep, since, limit, reverse), off |-> top, ep |-> ep],
                        ref |-> RefHist(win, top, since, limit, reverse),
                        refdef |-> RefDefined(top, since, reverse)]
  /\ UNCHANGED <<expAt, expQ, idem, now, npub>>
  /\ handed' = <<>>

RemoveHistory ==
  /\ Settled /\ nops < MaxOps
  /\ nops' = nops + 1
  /\ win' = <<>>                       \* stream.Clear() if the stream exists; top/epoch/version stay
  /\ UNCHANGED <<ex, top, ep, epc, ver, expAt, expQ, remAt, remQ, idem, now, npub>>
  /\ handed' = <<>>
  /\ step' = [act |-> "RemoveHistory"]

Sinces == {[has |-> FALSE, off |-> 0, ep |-> 0]} \cup
          [has : {TRUE}, off : 0..(MaxPubs + 1), ep : 0..2]

Next ==
  \/ Tick \/ SweepExpire \/ SweepRemove \/ RemoveHistory
  \/ \E size \in Sizes, ttl \in TTLs, mttl \in MetaTTLs, v \in Versions, ve \in VerEpochs, k \in IdemKeys, kttl \in IdemTTLs :
       /\ (v = 0 => ve = "") /\ (k = "" => kttl = CHOOSE x \in IdemTTLs : TRUE)
       /\ Publish(size, ttl, mttl, v, ve, k, kttl)
  \/ \E since \in Sinces, limit \in Limits, reverse \in BOOLEAN, mttl \in MetaTTLs :
       /\ ~(reverse /\ since.has /\ since.off = 0)       \* rejected by Node.history before the broker (C43)
       /\ History(since, limit, reverse, mttl)

Spec == Init /\ [][Next]_vars

---------------------------------------------------------------------------
(* C17 *)
TypeOK ==
  /\ top >= 0 /\ Len(win) <= top
  /\ \A i \in 1..Len(win) : win[i].off = top - Len(win) + i      \* the window is the dense suffix ending at top
  /\ ex = FALSE => (top = 0 /\ win = <<>> /\ ep = 0)

\* offsets start at 1 and increase by one per stored publication
OffsetsDense == [][
   step'.act = "Publish" /\ step'.res.sup = "" =>
      /\ step'.res.off = (IF ex THEN top ELSE 0) + 1
      /\ top' = step'.res.off
      /\ win'[Len(win')] = [off |-> step'.res.off, id |-> step'.args.id]
      /\ Len(win') <= step'.args.size ]_vars

\* history = retained suffix filtered by since / limit / direction
\* (an ACTION property: `step` is hidden by the VIEW, a state invariant over it would only be evaluated on
\*  states whose view is new; action properties are evaluated on every generated transition)
HistoryIsRetainedSuffix == [][
  (step'.act = "History" /\ step'.refdef) => step'.res.pubs = step'.ref ]_vars

\* the epoch changes only when the stream's metadata was discarded
EpochStable == [][ (ex /\ ex') => (ep' = ep /\ top' >= top) ]_vars
EpochFresh  == [][ (ep' # ep /\ ep' # 0) => (~ex /\ ep' = epc + 1) ]_vars

\* a removed or expired stream keeps top and epoch
ClearKeepsPosition == [][
   step'.act \in {"RemoveHistory", "SweepExpire"} => (top' = top /\ ep' = ep /\ ex' = ex) ]_vars

(* C19 (memory) *)
SuppressedChangesNothing == [][
   step'.act = "Publish" /\ step'.res.sup # "" =>
      /\ <<ex, top, win, ep, ver, idem>>' = <<ex, top, win, ep, ver, idem>>
      /\ handed' = <<>> ]_vars

StoredIsHanded == [][
   step'.act = "Publish" /\ step'.res.sup = "" =>
      handed' = <<[off |-> step'.res.off, id |-> step'.args.id]>> ]_vars

\* version suppression exactly when an equal or higher version is held in the same version epoch
VersionExact == [][
   (step'.act = "Publish" /\ step'.res.sup # "idempotency") =>
      ( (step'.res.sup = "version") <=>
        (step'.args.v > 0 /\ ex /\ (step'.args.ve = "" \/ step'.args.ve = ver.e) /\ step'.args.v <= ver.v) ) ]_vars

\* unversioned publishes keep the protection
UnversionedKeepsVersion == [][
   (step'.act = "Publish" /\ step'.args.v = 0 /\ ex) => ver' = ver ]_vars

\* an idempotent repeat returns the original position
IdemReturnsOriginal == [][
   (step'.act = "Publish" /\ step'.res.sup = "idempotency") =>
      /\ step'.args.k \in DOMAIN idem
      /\ now <= idem[step'.args.k].exp
      /\ step'.res.off = idem[step'.args.k].pos.off /\ step'.res.ep = idem[step'.args.k].pos.ep ]_vars

View == <<core, npub, nops>>
=============================================================================
