SPECIFICATION Spec
CONSTANTS
  MaxPub = 3
  HistSize = 2
  MaxFaults = 0
  MaxSess = 1
  Kinds = {"nohist", "plain"}
  Filts = {FALSE}
  Meds = {TRUE}
  AllowClear = FALSE
  DeltaOpts = {TRUE, FALSE}
  PayKinds = {"sim"}
  AsCoded = FALSE
  Withhold = FALSE
VIEW View
INVARIANTS NotScnMixedDeltaOption
CHECK_DEADLOCK FALSE
