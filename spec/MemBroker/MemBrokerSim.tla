---------------------------- MODULE MemBrokerSim ----------------------------
(* Behaviour generator for replay (TLC -simulate): the same actions as
   MemBroker.  TLC's simulator picks uniformly among the successor STATES, so
   with the plain Next almost every step would be a History read (hundreds of
   argument combinations against one Tick).  Here every operation class
   contributes a fixed number of distinct successors (the slot variable `w`
   makes them distinct) and the arguments of a slot are derived from a hash of
   the slot and the current state, which walks through the argument space
   across steps and behaviours.  (RandomElement is useless for this: TLC
   re-seeds it per behaviour, every behaviour would draw the same sequence.)
   Run with Deterministic = TRUE. *)
EXTENDS MemBroker, SequencesExt

VARIABLE w
simvars == <<vars, w>>

SizesQ  == SetToSeq(Sizes)      TTLsQ  == SetToSeq(TTLs)       MetaQ == SetToSeq(MetaTTLs)
VersQ   == SetToSeq(Versions)   VEpQ   == SetToSeq(VerEpochs)  KeysQ == SetToSeq(IdemKeys)
KTTLsQ  == SetToSeq(IdemTTLs)   LimitsQ == SetToSeq(Limits)    SincesQ == SetToSeq(Sinces)
BoolQ   == <<FALSE, TRUE>>

H(s) == s * 7919 + nops * 104729 + npub * 1299709 + now * 15485863 + top * 32452843 + Len(win) * 49979687
Sel(q, h, d) == q[((h \div d) % Len(q)) + 1]

SimPublish(s) ==
  LET h == H(s)
      v == Sel(VersQ, h, 7)  k == Sel(KeysQ, h, 31)
  IN Publish(Sel(SizesQ, h, 1), Sel(TTLsQ, h, 3), Sel(MetaQ, h, 11), v,
             IF v = 0 THEN "" ELSE Sel(VEpQ, h, 53), k,
             IF k = "" THEN CHOOSE x \in IdemTTLs : TRUE ELSE Sel(KTTLsQ, h, 97))

SimHistory(s) ==
  LET h == H(s + 100)
      since == Sel(SincesQ, h, 1)  reverse == Sel(BoolQ, h, 17)
  IN /\ ~(reverse /\ since.has /\ since.off = 0)
     /\ History(since, Sel(LimitsQ, h, 37), reverse, Sel(MetaQ, h, 101))

SimNext ==
  \/ (SweepExpire \/ SweepRemove) /\ w' = 0
  \/ \E s \in 1..4  : Tick /\ w' = s
  \/ \E s \in 1..6  : SimPublish(s) /\ w' = s
  \/ \E s \in 1..4  : SimHistory(s) /\ w' = s
  \/ RemoveHistory /\ w' = 0

SimSpec == Init /\ w = 0 /\ [][SimNext]_simvars
=============================================================================
