SPECIFICATION Spec
CONSTANTS
  Sizes = {1, 2}
  TTLs = {1, 2}
  MetaTTLs = {0, 2}
  Versions = {0, 1, 2}
  VerEpochs = {"", "va", "vb"}
  IdemKeys = {"", "k1"}
  IdemTTLs = {1}
  Limits <- LimitsSmall
  MaxNow = 4
  MaxPubs = 3
  MaxOps = 3
  Deterministic = FALSE
VIEW View
INVARIANTS TypeOK
PROPERTIES HistoryIsRetainedSuffix OffsetsDense EpochStable EpochFresh ClearKeepsPosition SuppressedChangesNothing StoredIsHanded VersionExact UnversionedKeepsVersion IdemReturnsOriginal
CHECK_DEADLOCK FALSE
