//go:build verif

package centrifuge

// Overlay-injected (never committed to /repo): re-exports of internal/filter for the /verif harness
// module (property C15). See /verif/FRAMEWORK.md.

import (
	"github.com/centrifugal/centrifuge/internal/filter"
	"github.com/centrifugal/protocol"
)

func VerifFilterMatch(f *protocol.FilterNode, tags map[string]string) (bool, error) {
	return filter.Match(f, tags)
}

func VerifFilterValidate(f *protocol.FilterNode) error { return filter.Validate(f) }

func VerifFilterHash(f *protocol.FilterNode) [32]byte { return filter.Hash(f) }
