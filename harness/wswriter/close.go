package main

// C31 (b) mode closecodes: received close code / close reason validity tables against isValidReceivedCloseCode and
//         against real close frames fed to a real Conn of either role;
// C31 (c) mode transportclose: the real websocketTransport.Close(disconnect) against a client that parses the frame;
// C31 (d) mode closereg: scripts of spec/WsHandshake/WsCloseReg.tla replayed into a real Conn, Conn.CloseCode()
//         compared after every step.

import (
	"bytes"
	"encoding/binary"
	"encoding/json"
	"fmt"
	"io"
	"strings"
	"time"

	"github.com/centrifugal/centrifuge"

	"verifharness/vh"
)

// buildFrame: my own frame writer (RFC 6455 5.2); masked frames use a fixed non-trivial key
func buildFrame(op int, fin bool, masked bool, payload []byte) []byte {
	var b []byte
	b0 := byte(op)
	if fin {
		b0 |= 0x80
	}
	b = append(b, b0)
	m := byte(0)
	if masked {
		m = 0x80
	}
	switch {
	case len(payload) <= 125:
		b = append(b, m|byte(len(payload)))
	case len(payload) < 65536:
		b = append(b, m|126, byte(len(payload)>>8), byte(len(payload)))
	default:
		b = append(b, m|127)
		var l [8]byte
		binary.BigEndian.PutUint64(l[:], uint64(len(payload)))
		b = append(b, l[:]...)
	}
	if masked {
		key := [4]byte{0x37, 0xfa, 0x21, 0x3d}
		b = append(b, key[:]...)
		for i, c := range payload {
			b = append(b, c^key[i&3])
		}
	} else {
		b = append(b, payload...)
	}
	return b
}

func closePayload(code int, reason []byte) []byte {
	p := make([]byte, 2+len(reason))
	binary.BigEndian.PutUint16(p, uint16(code))
	copy(p[2:], reason)
	return p
}

// feedClose sends one close frame to a real Conn of the given role; accepted = ReadMessage reports a CloseError
// carrying exactly this code and reason; reply = close frames the Conn wrote back
func feedClose(readerIsServer bool, payload []byte) (accepted bool, ce *centrifuge.VerifWsCloseError, err error, reply []frame, panicked any) {
	cc := &capConn{r: bytes.NewReader(buildFrame(8, true, readerIsServer, payload))}
	c := centrifuge.VerifWsNewConn(cc, readerIsServer, 0, 0, nil, false)
	func() {
		defer func() { panicked = recover() }()
		_, _, err = c.ReadMessage()
	}()
	if e, ok := err.(*centrifuge.VerifWsCloseError); ok {
		ce = e
	}
	reply, _, _ = parseFrames(cc.take())
	return ce != nil, ce, err, reply, panicked
}

func codeLabel(c int) string {
	switch {
	case c < 1000:
		return "0-999"
	case c <= 1003:
		return "1000-1003"
	case c <= 1006:
		return fmt.Sprint(c)
	case c <= 1011:
		return "1007-1011"
	case c <= 1015:
		return fmt.Sprint(c)
	case c < 3000:
		return "1016-2999"
	case c < 4000:
		return "3000-3999"
	case c < 5000:
		return "4000-4999"
	}
	return "5000+"
}

type ccRow struct {
	Kind string `json:"kind"`
	Row  struct {
		Code   int    `json:"code"`
		Reason string `json:"reason"`
	} `json:"row"`
	Res struct {
		Accept    bool `json:"accept"`
		Must      bool `json:"must"`
		Forbidden bool `json:"forbidden"`
	} `json:"res"`
}

func reasonBytes(cls string) []byte {
	switch cls {
	case "empty":
		return nil
	case "ascii":
		return []byte("going away")
	case "two-byte":
		return []byte("café")
	case "three-byte":
		return []byte("€ uro")
	case "four-byte":
		return []byte("ok \U0001F600")
	case "max-123-bytes":
		return bytes.Repeat([]byte("r"), 123)
	case "lone-continuation":
		return []byte{'a', 0x80, 'b'}
	case "truncated-multibyte":
		return []byte{'a', 0xe2, 0x82}
	case "overlong":
		return []byte{0xc0, 0xaf}
	case "surrogate":
		return []byte{0xed, 0xa0, 0x80}
	case "byte-ff":
		return []byte{'x', 0xff}
	case "beyond-10ffff":
		return []byte{0xf4, 0x90, 0x80, 0x80}
	}
	panic("reason class " + cls)
}

func modeCloseCodes(in json.RawMessage, res *vh.Result) error {
	var rows []ccRow
	if err := json.Unmarshal(in, &rows); err != nil {
		return err
	}
	for _, r := range rows {
		replay := map[string]any{"mode": "closecodes", "row": r}
		switch r.Kind {
		case "closecode":
			code := r.Row.Code
			observe := map[string]bool{"isValidReceivedCloseCode": centrifuge.VerifWsIsValidReceivedCloseCode(code)}
			for _, srv := range []bool{true, false} {
				name := map[bool]string{true: "server Conn", false: "client Conn"}[srv]
				acc, ce, err, reply, p := feedClose(srv, closePayload(code, []byte("bye")))
				if p != nil {
					res.Drift("C31", fmt.Sprintf("close frame with code %d: ReadMessage panicked: %v", code, p), replay)
					continue
				}
				if acc && (ce.Code != code || ce.Text != "bye") {
					res.Violate("C31", "closecode:reported-differently:"+codeLabel(code), fmt.Sprintf("close frame with code %d reason \"bye\" is reported as code %d reason %q", code, ce.Code, ce.Text), replay)
				}
				observe[name] = acc
				// what went back: echo of the code on acceptance (RFC 6455 5.5.1), 1002 on rejection (7.4.1)
				want := 1002
				if acc {
					want = code
				}
				got := -1
				if len(reply) == 1 && reply[0].Op == 8 && len(reply[0].Payload) >= 2 {
					got = int(binary.BigEndian.Uint16(reply[0].Payload))
				}
				if got != want {
					res.Drift("C31", fmt.Sprintf("%s answered the close frame with code %d by %v (close code %d), expected a close frame with code %d; read error %v", name, code, reply, got, want, err), replay)
				}
			}
			for how, acc := range observe {
				switch {
				case r.Res.Forbidden && acc:
					res.Violate("C31", "closecode:accept-forbidden:"+codeLabel(code), fmt.Sprintf("%s accepts close code %d, which RFC 6455 7.4.1/7.4.2 forbids in a received Close frame (range %s)", how, code, codeLabel(code)), replay)
				case r.Res.Must && !acc:
					res.Violate("C31", "closecode:reject-valid:"+codeLabel(code), fmt.Sprintf("%s rejects close code %d, which RFC 6455 7.4.1/7.4.2 defines as valid (range %s)", how, code, codeLabel(code)), replay)
				case acc != r.Res.Accept:
					res.Drift("C31", fmt.Sprintf("%s: close code %d accepted = %v, model of validReceivedCloseCodes says %v (the RFC leaves this code open)", how, code, acc, r.Res.Accept), replay)
				}
			}
			if r.Res.Must {
				res.Distinct(fmt.Sprint("code", code))
			}
		case "reason":
			rb := reasonBytes(r.Row.Reason)
			for _, srv := range []bool{true, false} {
				acc, ce, _, _, p := feedClose(srv, closePayload(r.Row.Code, rb))
				if p != nil {
					res.Drift("C31", fmt.Sprintf("close reason %s: ReadMessage panicked: %v", r.Row.Reason, p), replay)
					continue
				}
				switch {
				case !r.Res.Accept && acc:
					res.Violate("C31", "closereason:accept-invalid-utf8:"+r.Row.Reason, fmt.Sprintf("a close frame whose reason is not valid UTF-8 (%s: % x) is accepted (RFC 6455 5.5.1/7.1.6/8.1, RFC 3629)", r.Row.Reason, rb), replay)
				case r.Res.Accept && !acc:
					res.Violate("C31", "closereason:reject-valid:"+r.Row.Reason, fmt.Sprintf("a close frame with a valid UTF-8 reason (%s, %d bytes) is rejected", r.Row.Reason, len(rb)), replay)
				case acc && (ce.Code != r.Row.Code || ce.Text != string(rb)):
					res.Violate("C31", "closereason:reported-differently", fmt.Sprintf("close frame code %d reason %q reported as %d %q", r.Row.Code, rb, ce.Code, ce.Text), replay)
				}
			}
			res.Distinct("reason" + r.Row.Reason)
		default:
			continue
		}
		res.Done(1, 1)
	}
	return nil
}

// ---------------------------------------------------------------------------------------------

type tcRow struct {
	Row struct {
		Code int `json:"code"`
		Len  int `json:"len"`
	} `json:"row"`
	Res struct {
		Frame  bool `json:"frame"`
		Closed bool `json:"closed"`
	} `json:"res"`
}

func modeTransportClose(in json.RawMessage, res *vh.Result) error {
	var rows []tcRow
	if err := json.Unmarshal(in, &rows); err != nil {
		return err
	}
	for _, r := range rows {
		replay := map[string]any{"mode": "transportclose", "row": r}
		reason := strings.Repeat("r", r.Row.Len)
		if r.Row.Len >= 2 {
			reason = "x" + strings.Repeat("r", r.Row.Len-2) + "y"
		}
		cc := &capConn{}
		conn := centrifuge.VerifWsNewConn(cc, true, 0, 0, nil, false)
		var p any
		func() {
			defer func() { p = recover() }()
			_ = centrifuge.VerifWsTransportClose(conn, centrifuge.Disconnect{Code: uint32(r.Row.Code), Reason: reason})
		}()
		if p != nil {
			res.Drift("C31", fmt.Sprintf("transport Close(%d, %d byte reason) panicked: %v", r.Row.Code, r.Row.Len, p), replay)
			continue
		}
		wire := cc.take()
		fr, rest, perr := parseFrames(wire)
		desc := fmt.Sprintf("websocketTransport.Close(Disconnect{Code: %d, Reason: %d bytes})", r.Row.Code, r.Row.Len)
		fits := 2+r.Row.Len <= 125
		switch {
		case perr != nil || len(rest) > 0:
			res.Violate("C31", "tclose:unparsable", fmt.Sprintf("%s wrote bytes that are not whole frames (% x)", desc, wire), replay)
		case len(fr) > 1:
			res.Violate("C31", "tclose:several-frames", fmt.Sprintf("%s wrote %d frames", desc, len(fr)), replay)
		case len(fr) == 1 && (fr[0].Op != 8 || !fr[0].Fin || fr[0].Masked || fr[0].Len > 125 || fr[0].Rsv1):
			res.Violate("C31", "tclose:invalid-close-frame", fmt.Sprintf("%s wrote %s, not a valid server close frame (RFC 6455 5.5, 5.5.1)", desc, fr[0]), replay)
		case len(fr) == 1 && !bytes.Equal(fr[0].Payload, closePayload(r.Row.Code, []byte(reason))):
			res.Violate("C31", "tclose:payload", fmt.Sprintf("%s wrote a close frame with payload % x, expected code %d and the reason (RFC 6455 5.5.1)", desc, fr[0].Payload, r.Row.Code), replay)
		case len(fr) == 0 && fits && r.Row.Code != 3000:
			res.Violate("C31", fmt.Sprintf("tclose:no-frame:len=%d", r.Row.Len), fmt.Sprintf("%s closed the connection without a close frame although code and reason fit into a control frame (2+%d <= 125)", desc, r.Row.Len), replay)
		case (len(fr) == 1) != r.Res.Frame:
			res.Drift("C31", fmt.Sprintf("%s: close frame written = %v, model %v", desc, len(fr) == 1, r.Res.Frame), replay)
		}
		if !cc.closed {
			res.Violate("C31", "tclose:not-closed", desc+" left the network connection open", replay)
		}
		if len(fr) == 1 {
			// the client side: a real client Conn must report the same code and reason
			rc := centrifuge.VerifWsNewConn(&capConn{r: bytes.NewReader(wire)}, false, 0, 0, nil, false)
			_, _, err := rc.ReadMessage()
			ce, ok := err.(*centrifuge.VerifWsCloseError)
			if !ok || ce.Code != r.Row.Code || ce.Text != reason {
				res.Violate("C31", "tclose:client-sees-other", fmt.Sprintf("%s: a client Conn reads %v, expected close %d with the %d byte reason", desc, err, r.Row.Code, r.Row.Len), replay)
			}
			res.Distinct(fmt.Sprint(r.Row.Code, "/", r.Row.Len))
		}
		res.Sample(map[string]any{"close": desc, "frames": len(fr), "conn_closed": cc.closed})
		res.Done(1, 1)
	}
	return nil
}

// ---------------------------------------------------------------------------------------------

type regStep struct {
	Op  string `json:"op"`
	Arg int    `json:"arg"`
	Out []int  `json:"out"`
	Reg struct {
		Code int  `json:"code"`
		Inc  bool `json:"inc"`
	} `json:"reg"`
}

// growReader: bytes appended between reads; EOF when drained (only read when a whole frame sequence is queued)
type growReader struct{ buf bytes.Buffer }

func (g *growReader) Read(p []byte) (int, error) {
	if g.buf.Len() == 0 {
		return 0, io.EOF
	}
	return g.buf.Read(p)
}

func modeCloseReg(in json.RawMessage, res *vh.Result) error {
	var scripts [][]regStep
	if err := json.Unmarshal(in, &scripts); err != nil {
		return err
	}
	for _, sc := range scripts {
		if len(sc) == 0 {
			continue
		}
		gr := &growReader{}
		cc := &capConn{r: gr}
		conn := centrifuge.VerifWsNewConn(cc, true, 0, 0, nil, false)
		conn.SetReadLimit(64)
		var ops []string
		okAll := true
		for i, st := range sc {
			ops = append(ops, st.Op)
			replay := map[string]any{"mode": "closereg", "script": sc, "step": i}
			var p any
			func() {
				defer func() { p = recover() }()
				switch st.Op {
				case "AppClose":
					_ = conn.WriteControl(8, centrifuge.VerifWsFormatCloseMessage(st.Arg, "r"), time.Now().Add(time.Hour))
				case "AppCloseTooLong":
					_ = conn.WriteControl(8, centrifuge.VerifWsFormatCloseMessage(map[bool]int{true: 1000, false: st.Arg}[st.Arg == 1005], strings.Repeat("r", 124)), time.Now().Add(time.Hour))
				case "RecvClose", "RecvCloseInvalid":
					gr.buf.Write(buildFrame(8, true, true, closePayload(st.Arg, []byte("x"))))
					_, _, _ = conn.ReadMessage()
				case "RecvCloseEmpty":
					gr.buf.Write(buildFrame(8, true, true, nil))
					_, _, _ = conn.ReadMessage()
				case "RecvCloseBadUtf8":
					gr.buf.Write(buildFrame(8, true, true, closePayload(1000, []byte{0xff})))
					_, _, _ = conn.ReadMessage()
				case "RecvTooBig":
					gr.buf.Write(buildFrame(1, true, true, bytes.Repeat([]byte("a"), 100)))
					_, _, _ = conn.ReadMessage()
				case "RecvPing":
					gr.buf.Write(buildFrame(9, true, true, []byte("p")))
					gr.buf.Write(buildFrame(1, true, true, []byte("hi")))
					_, _, _ = conn.ReadMessage()
				default:
					panic("op " + st.Op)
				}
			}()
			if p != nil {
				res.Drift("C31", fmt.Sprintf("closereg %v: step %s panicked: %v", ops, st.Op, p), replay)
				okAll = false
				break
			}
			fr, _, _ := parseFrames(cc.take())
			var sent []int
			for _, f := range fr {
				if f.Op == 8 {
					c := 1005
					if len(f.Payload) >= 2 {
						c = int(binary.BigEndian.Uint16(f.Payload))
					}
					sent = append(sent, c)
				}
			}
			code, inc := conn.CloseCode()
			if code != st.Reg.Code || inc != st.Reg.Inc {
				res.Violate("C31", "closereg:"+strings.Join(ops, ">"), fmt.Sprintf("after %v (args %s) Conn.CloseCode() = (%d, incoming=%v); the first close frame observed is (%d, incoming=%v)", ops, argsOf(sc[:i+1]), code, inc, st.Reg.Code, st.Reg.Inc), replay)
				okAll = false
				break
			}
			if fmt.Sprint(sent) != fmt.Sprint(st.Out) && !(len(sent) == 0 && len(st.Out) == 0) {
				res.Drift("C31", fmt.Sprintf("closereg %v (args %s): close frames written in the last step %v, model %v", ops, argsOf(sc[:i+1]), sent, st.Out), replay)
				okAll = false
				break
			}
		}
		if okAll {
			if len(sc) >= 2 {
				res.Distinct(strings.Join(ops, ">") + argsOf(sc))
			}
			res.Done(1, 1)
		} else {
			res.Done(1, 0)
		}
	}
	return nil
}

func argsOf(sc []regStep) string {
	var a []string
	for _, s := range sc {
		a = append(a, fmt.Sprint(s.Arg))
	}
	return strings.Join(a, ",")
}
