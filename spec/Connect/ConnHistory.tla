---------------------------- MODULE ConnHistory ----------------------------
(* C43  History and presence client commands honour their limits.

   Function table (like spec/Merge): Init enumerates every request of the
   bounded argument space, `res` is what the client must receive.  The clamp
   of client.go:handleHistory and the request checks of node.go:history are
   transcribed (ClampImpl, CodeImpl); the property is stated independently
   (RefLimit, RefPubs, the bound) and checked as an invariant over the whole
   table; the Go harness replays every row through the client command path of
   a real node and compares the reply with the row AND with Node.History /
   Node.Presence / Node.PresenceStats called on the same node.

   The stream holds publications with offsets 1..top, all retained.          *)
EXTENDS Naturals, Integers, Sequences, FiniteSets

CONSTANTS MaxTop,    \* publications in the channel: 0..MaxTop
          Limits,    \* requested limits (-1 = no limit, 0 = position only)
          Maxes,     \* Config.HistoryMaxPublicationLimit values (0 = unlimited)
          MaxConns   \* subscribed connections for the presence rows

LimitsQ == {-1, 0, 1, 2, 3, 5}
LimitsT == {-1, 0, 1, 2, 3, 5, 7}

ErrBadRequest == 107
ErrUnrecoverable == 112

NoSince == [has |-> FALSE, off |-> 0, ep |-> ""]
Sinces  == {NoSince} \cup {[has |-> TRUE, off |-> o, ep |-> e] : o \in 0..(MaxTop + 1), e \in {"", "same", "other"}}

HistInputs == [kind : {"history"}, top : 0..MaxTop, limit : Limits, since : Sinces, reverse : BOOLEAN, max : Maxes]
Users      == {"u1", "u2"}
PresInputs == [kind : {"presence", "presence_stats"}, users : UNION {[1..n -> Users] : n \in 0..MaxConns}]

VARIABLES inp, res
vars == <<inp, res>>

---------------------------------------------------------------------------
(* the code *)
\* handleHistory: `if max > 0 && (limit < 0 || limit > max) { limit = max }`
ClampImpl(limit, max) == IF max > 0 /\ (limit < 0 \/ limit > max) THEN max ELSE limit

\* node.history: reverse with since.offset = 0 is a bad request; a foreign epoch is an unrecoverable position
CodeImpl(i) == IF i.reverse /\ i.since.has /\ i.since.off = 0 THEN ErrBadRequest
               ELSE IF i.since.has /\ i.since.ep = "other" THEN ErrUnrecoverable
               ELSE 0

---------------------------------------------------------------------------
(* the property, stated without the code's steps *)
Min(a, b) == IF a < b THEN a ELSE b
\* what a client is entitled to ask for
RefLimit(limit, max) == IF max = 0 THEN limit ELSE IF limit < 0 THEN max ELSE Min(limit, max)

Asc(a, b)  == [x \in 1..(IF b >= a THEN b - a + 1 ELSE 0) |-> a + x - 1]
Desc(a, b) == [x \in 1..(IF a >= b THEN a - b + 1 ELSE 0) |-> a - x + 1]      \* a, a-1, .., b
Take(s, n) == IF n < 0 \/ n >= Len(s) THEN s ELSE SubSeq(s, 1, n)

\* node-level history of a fully retained stream 1..top for a filter (since, limit, reverse)
RefPubs(top, since, limit, reverse) ==
  LET cand == IF ~since.has THEN (IF reverse THEN Desc(top, 1) ELSE Asc(1, top))
              ELSE IF reverse THEN Desc(Min(since.off - 1, top), 1)
              ELSE Asc(since.off + 1, top)
  IN IF limit = 0 THEN <<>> ELSE Take(cand, limit)
\* outside the statement: a reverse read from beyond top + 1 (the memory broker returns nothing there, see MemBroker.tla)
Defined(i) == ~(i.since.has /\ i.reverse /\ i.since.off > i.top + 1)

HistRes(i) ==
  LET eff == ClampImpl(i.limit, i.max)
      code == CodeImpl(i)
  IN [eff |-> eff, code |-> code, defined |-> Defined(i),
      pubs |-> IF code # 0 THEN <<>> ELSE RefPubs(i.top, i.since, eff, i.reverse)]

PresRes(i) ==
  [clients |-> Len(i.users), nusers |-> Cardinality({i.users[x] : x \in 1..Len(i.users)})]

Res(i) == IF i.kind = "history" THEN HistRes(i) ELSE PresRes(i)

C43 ==
  inp.kind = "history" =>
    /\ res.eff = RefLimit(inp.limit, inp.max)
    /\ inp.max > 0 => Len(res.pubs) <= inp.max
    /\ (inp.reverse /\ inp.since.has /\ inp.since.off = 0) => res.code = ErrBadRequest
    /\ res.code = 0 => res.pubs = RefPubs(inp.top, inp.since, RefLimit(inp.limit, inp.max), inp.reverse)
    \* every publication returned satisfies the filter, in the requested order
    /\ \A x \in 1..Len(res.pubs) :
         /\ res.pubs[x] \in 1..inp.top
         /\ inp.since.has => (IF inp.reverse THEN res.pubs[x] < inp.since.off ELSE res.pubs[x] > inp.since.off)
         /\ x > 1 => (IF inp.reverse THEN res.pubs[x] < res.pubs[x - 1] ELSE res.pubs[x] > res.pubs[x - 1])

Init == /\ inp \in HistInputs \cup PresInputs
        /\ res = Res(inp)
Next == UNCHANGED vars
Spec == Init /\ [][Next]_vars
=============================================================================
