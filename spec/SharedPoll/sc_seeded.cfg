SPECIFICATION Spec
CONSTANTS
  ClosedCheck = FALSE
  PresenceRecheck = TRUE
VIEW View
INVARIANTS C05_KeyedSub
CHECK_DEADLOCK FALSE
