SPECIFICATION TraceSpec
CONSTANTS
  Sizes = {1, 2, 3}
  TTLs = {1, 2, 3}
  MetaTTLs = {0, 2, 3}
  Versions = {0, 1, 2, 3}
  VerEpochs = {"", "va", "vb"}
  IdemKeys = {"", "k1", "k2"}
  IdemTTLs = {1, 2}
  Limits <- LimitsBig
  MaxNow = 1000
  MaxPubs = 1000
  MaxOps = 100000
  Deterministic = FALSE
VIEW TraceView
CONSTRAINT HighWater
INVARIANTS TypeOK
PROPERTIES HistoryIsRetainedSuffix T_OffsetsDense T_EpochStable T_ClearKeepsPosition T_SuppressedChangesNothing
POSTCONDITION TraceAccepted
CHECK_DEADLOCK FALSE
