// C08, subscription kind "map": replay of every schedule of spec/Connect/ConnLifeMap.tla on a real connected client.
// The subscribe command of a client-side map subscription is parked inside MapBroker.ReadState (the MapBroker is an
// interface: the harness wraps MemoryMapBroker), i.e. after the c.mapSubscribing reservation and before the commit;
// a server-side Client.Unsubscribe arrives in that window (it waits for the subscribe in flight), the read is released,
// the subscribe commits and the waiting unsubscribe ends the subscription. Monitor: the C08 unsubscribe count (one
// unsubscribe callback per established subscription that ended), on the real callback log and frames.
package main

import (
	"context"
	"encoding/json"
	"fmt"
	"sync"
	"time"

	"github.com/centrifugal/centrifuge"
	"github.com/centrifugal/protocol"

	"verifharness/cl"
	"verifharness/vh"
)

type mapGate8 struct {
	centrifuge.MapBroker
	mu   sync.Mutex
	gate *cl.Gate
}

func (m *mapGate8) ReadState(ctx context.Context, ch string, opts centrifuge.MapReadStateOptions) (centrifuge.MapStateResult, error) {
	m.mu.Lock()
	g := m.gate
	m.gate = nil
	m.mu.Unlock()
	if g != nil {
		g.Arrive(gateHold)
	}
	return m.MapBroker.ReadState(ctx, ch, opts)
}

type in8map struct {
	Paths [][]string `json:"paths"`
}

func run8map(pi int, path []string, res *vh.Result) (key string) {
	completed := 1
	var steps []string
	var conn *cl.Conn
	replay := func() map[string]any {
		m := map[string]any{"steps": steps}
		if conn != nil {
			m["frames"] = cl.DescribeAll(conn.Frames())
			var ks []string
			for _, e := range conn.Env.EventsOf(conn.Client.ID()) {
				ks = append(ks, e.Kind)
			}
			m["callbacks"] = ks
		}
		return m
	}
	drift := func(what string) {
		res.Drift("", fmt.Sprintf("%s (map schedule %d %v)", what, pi, steps), replay())
		completed = 0
	}
	violate := func(sig, what string) {
		res.Violate("C08", sig, fmt.Sprintf("%s (map schedule %d, steps %v)", what, pi, steps), replay())
		completed = 0
	}
	env, err := cl.NewEnv(centrifuge.Config{
		LogLevel: centrifuge.LogLevelNone,
		Map: centrifuge.MapConfig{GetMapChannelOptions: func(string) centrifuge.MapChannelOptions {
			return centrifuge.MapChannelOptions{Mode: centrifuge.MapModeRecoverable, KeyTTL: time.Hour, MinPageSize: 1, SubscribeCatchUpTimeout: -1}
		}},
	})
	if err != nil {
		res.Drift("C08", "node: "+err.Error(), nil)
		res.Done(1, 0)
		return ""
	}
	inner, err := centrifuge.NewMemoryMapBroker(env.Node, centrifuge.MemoryMapBrokerConfig{})
	if err != nil {
		res.Drift("C08", "map broker: "+err.Error(), nil)
		res.Done(1, 0)
		return ""
	}
	mb := &mapGate8{MapBroker: inner}
	env.Node.SetMapBroker(mb)
	env.OnSubscribe = func(_ *centrifuge.Client, _ centrifuge.SubscribeEvent, cb centrifuge.SubscribeCallback) {
		cb(centrifuge.SubscribeReply{Options: centrifuge.SubscribeOptions{Type: centrifuge.SubscriptionTypeMap}}, nil)
	}
	if err := env.Run(); err != nil {
		res.Drift("C08", "node: "+err.Error(), nil)
		res.Done(1, 0)
		return ""
	}
	defer env.Close()
	ch := fmt.Sprintf("m8_%d_%d", vh.Seed(), pi)
	conn, err = env.NewConn("u", centrifuge.ProtocolTypeJSON)
	if err != nil || conn.Connect() == nil {
		drift("connect failed")
		res.Done(1, 0)
		return ""
	}
	defer conn.Cancel()
	id := conn.Client.ID()
	cbs := func() []string {
		var ks []string
		for _, e := range env.EventsOf(id) {
			switch e.Kind {
			case "connect", "subscribe", "unsubscribe", "disconnect":
				ks = append(ks, e.Kind)
			}
		}
		return ks
	}
	count := func(k []string, x string) int {
		n := 0
		for _, e := range k {
			if e == x {
				n++
			}
		}
		return n
	}
	frames := func() (subs, unsubs int) {
		for _, rep := range conn.Frames() {
			if rep.Subscribe != nil {
				subs++
			}
			if rep.Push != nil && rep.Push.Unsubscribe != nil {
				unsubs++
			}
		}
		return
	}
	waitFor := func(pred func() bool) bool {
		for dl := time.Now().Add(gateWait); time.Now().Before(dl); time.Sleep(100 * time.Microsecond) {
			if pred() {
				return true
			}
		}
		return pred()
	}
	var gate *cl.Gate
	var reader, unsubber chan struct{}
	var subID uint32
	wantSub, wantUnsub := 0, 0 // the model's counts of subscribe replies / unsubscribe callbacks
	closed, pendingUnsub, mlive := false, false, false
	defer func() {
		if gate != nil {
			gate.Release()
		}
		waitDone(reader, gateWait)
		waitDone(unsubber, gateWait)
	}()
	for _, act := range path {
		if completed == 0 {
			break
		}
		steps = append(steps, act)
		switch act {
		case "SubBegin":
			gate = cl.NewGate()
			mb.mu.Lock()
			mb.gate = gate
			mb.mu.Unlock()
			subID = conn.NextID()
			reader = make(chan struct{})
			go func(r chan struct{}, sid uint32) {
				defer close(r)
				conn.Do(&protocol.Command{Id: sid, Subscribe: &protocol.SubscribeRequest{Channel: ch, Type: int32(centrifuge.SubscriptionTypeMap), Phase: centrifuge.MapPhaseState, Limit: 100}})
			}(reader, subID)
			if !gate.WaitArrived(gateWait) {
				drift("the map subscribe did not reach MapBroker.ReadState")
			}
		case "Unsub":
			if unsubber != nil && !isDone(unsubber) {
				drift("a previous Client.Unsubscribe is still running")
				break
			}
			unsubber = make(chan struct{})
			loading := reader != nil && !isDone(reader)
			go func(u chan struct{}) { defer close(u); conn.Client.Unsubscribe(ch) }(unsubber)
			if loading {
				// it waits for the subscribe in flight (nothing observable): give it time to get there
				time.Sleep(5 * time.Millisecond)
				if isDone(unsubber) {
					drift("Client.Unsubscribe returned although the map subscription is still loading")
				}
				pendingUnsub = true // its callback is due when the subscribe has committed
			} else {
				if !waitDone(unsubber, gateWait) {
					drift("Client.Unsubscribe of a live map subscription did not return")
				}
				wantUnsub++
				mlive = false
			}
		case "SubEnd":
			gate.Release()
			gate = nil
			if !waitDone(reader, gateWait) || conn.WaitReply(subID, gateWait) == nil {
				drift("the map subscribe did not finish after MapBroker.ReadState returned")
				break
			}
			if rep := conn.WaitReply(subID, gateWait); rep == nil || rep.Subscribe == nil {
				drift("the map subscribe was not answered with a subscribe reply: " + vh.J(cl.DescribeAll(conn.Frames())))
				break
			}
			wantSub++
			mlive = !pendingUnsub
			if pendingUnsub {
				wantUnsub++
				pendingUnsub = false
			}
			if unsubber != nil && !waitDone(unsubber, 2*gateWait) {
				drift("the waiting Client.Unsubscribe did not return after the subscribe committed")
			}
		case "Close":
			conn.Client.Disconnect()
			if !conn.T.WaitFor(gateWait, func(_ []*protocol.Reply, c bool) bool { return c }) {
				drift("the connection did not close")
				break
			}
			waitFor(func() bool { return count(cbs(), "disconnect") == 1 })
			closed = true
			if mlive {
				wantUnsub++
				mlive = false
			}
		default:
			drift("unknown action " + act)
		}
		if completed == 0 {
			break
		}
		// quiescence, then the monitor on the real log
		waitFor(func() bool {
			return count(cbs(), "unsubscribe") >= wantUnsub
		})
		k := cbs()
		subs, _ := frames()
		n := count(k, "unsubscribe")
		live := conn.Client.IsSubscribed(ch)
		ended := subs
		if live {
			ended--
		}
		switch {
		case n > subs:
			violate("unsubscribe-extra:map", fmt.Sprintf("%d unsubscribe callbacks for %d established map subscriptions: %v", n, subs, k))
		case n < ended:
			sig := "unsubscribe-missing:map"
			if act == "SubEnd" {
				sig += ":unsubscribe-during-load"
			}
			violate(sig, fmt.Sprintf("%d map subscription(s) were established (subscribe reply written) and %d ended (the client is %ssubscribed, connection closed=%v) but only %d unsubscribe callback(s) ran: %v", subs, ended, map[bool]string{true: "", false: "not "}[live], closed, n, k))
		case subs != wantSub || n != wantUnsub:
			drift(fmt.Sprintf("the model expects %d subscribe replies and %d unsubscribe callbacks, the real connection has %d and %d: %v", wantSub, wantUnsub, subs, n, k))
		}
	}
	if completed == 1 {
		key = vh.J(steps)
	}
	if pi < 2 {
		res.Sample(replay())
	}
	res.Done(1, completed)
	return key
}

func c08map(in json.RawMessage, res *vh.Result) error {
	var ri in8map
	if err := json.Unmarshal(in, &ri); err != nil {
		return err
	}
	sem := make(chan struct{}, 8)
	var wg sync.WaitGroup
	for pi := range ri.Paths {
		sem <- struct{}{}
		wg.Add(1)
		go func(pi int) {
			defer wg.Done()
			defer func() { <-sem }()
			for attempt := 1; ; attempt++ {
				local := vh.NewResult()
				key := run8map(pi, ri.Paths[pi], local)
				if len(local.Violations) == 0 && len(local.Drifts) > 0 && attempt < 3 {
					res.Count("re_executed_after_drift", 1)
					continue
				}
				for _, v := range local.Violations {
					res.Violate(v.Prop, v.Sig, v.What, v.Replay)
				}
				for _, d := range local.Drifts {
					res.Drift(d.Prop, d.What, d.Replay)
				}
				for _, sm := range local.Samples {
					res.Sample(sm)
				}
				if key != "" {
					res.Distinct(key)
				}
				res.Done(local.Executed, local.Completed)
				return
			}
		}(pi)
	}
	wg.Wait()
	return nil
}
