SPECIFICATION Spec
CONSTANTS
  Chans = {"a", "b", "c"}
  Compensate = "all"
VIEW View
INVARIANTS NoPresenceLeft
CHECK_DEADLOCK FALSE
