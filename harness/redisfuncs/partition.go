package main

// C35: the partition tag tables. `dumptags` hands the code's data to the spec, `partition` compares the
// spec's columns (TLC) with the code's own TagSlot / SlotToNode.

import (
	"encoding/json"
	"fmt"
	"math"

	"github.com/centrifugal/centrifuge"

	"verifharness/vh"
)

func dumptags(_ json.RawMessage, res *vh.Result) error {
	sizes := centrifuge.VerifPartitionSizes()
	tags := map[string][]string{}
	for _, n := range sizes {
		t, err := centrifuge.VerifFindTags(n)
		if err != nil {
			res.Violate("C35", "findtags-error", fmt.Sprintf("FindTags(%d) for a size listed by PrecomputedSizes: %v", n, err), nil)
			continue
		}
		tags[fmt.Sprint(n)] = append([]string{}, t...)
	}
	res.Extra["sizes"] = sizes
	res.Extra["tags"] = tags
	res.Done(len(sizes), len(sizes))
	return nil
}

type partIn struct {
	Rows [][]any `json:"rows"`
}

// start is the spec's Start(i, k) (cross-checked below against the rows TLC emits).
func start(i, k int) int {
	sn, r := 16384/k, 16384%k
	m := i
	if r < m {
		m = r
	}
	return i*sn + m
}

// redisCliOwner reproduces, from memory of redis-cli.c clusterManagerCommandCreate (not verifiable
// offline), how `redis-cli --cluster create` splits the slots: float slots_per_node = 16384/(float)k;
// for each master: last = lround(cursor + slots_per_node - 1); cursor += slots_per_node. Information only.
func redisCliBounds(k int) []int {
	spn := float32(16384) / float32(k)
	var cursor float32
	first := 0
	b := make([]int, 0, k+1)
	for i := 0; i < k; i++ {
		b = append(b, first)
		last := int(math.Round(float64(cursor + spn - 1)))
		if last > 16384 || i == k-1 {
			last = 16383
		}
		if last < first {
			last = first
		}
		first = last + 1
		cursor += spn
	}
	return append(b, 16384)
}

func partition(in json.RawMessage, res *vh.Result) error {
	if err := selfTest(); err != nil {
		return err
	}
	var inp partIn
	if err := json.Unmarshal(in, &inp); err != nil {
		return err
	}
	// 1. the spec's Start tables = the harness formula (so that the sweep below uses the spec's assignment)
	for _, r := range inp.Rows {
		if vh.Str(r[0]) != "starts" {
			continue
		}
		k := vh.Int(r[1])
		for i, v := range vh.List(r[2]) {
			if vh.Int(v) != start(i, k) {
				return fmt.Errorf("harness start(%d,%d)=%d differs from the spec's %d", i, k, start(i, k), vh.Int(v))
			}
		}
		res.Count("start_tables_checked", 1)
	}
	// 2. SlotToNode of the code = the spec's contiguous assignment, every cluster size up to 4096, every slot
	for k := 1; k <= 4096; k++ {
		node := 0
		for s := 0; s < 16384; s++ {
			for s >= start(node+1, k) {
				node++
			}
			if got := centrifuge.VerifSlotToNode(s, k); got != node {
				res.Violate("C35", "slot-to-node", fmt.Sprintf("SlotToNode(%d, %d) = %d, contiguous even assignment says %d", s, k, got, node), map[string]any{"slot": s, "k": k})
				k = 4097
				break
			}
		}
	}
	res.Count("slot_to_node_checked", 4096*16384)
	// 3. per size: the code's TagSlot = the spec's CRC16 slot (and = the harness's own)
	codeSlots := map[int][]int{}
	balanced := map[int]map[int]bool{}
	for _, r := range inp.Rows {
		if vh.Str(r[0]) != "size" {
			continue
		}
		p := vh.Int(r[1])
		tags, err := centrifuge.VerifFindTags(p)
		if err != nil {
			return err
		}
		spec := vh.List(r[6])
		if len(spec) != len(tags) {
			return fmt.Errorf("size %d: %d tags in the code now, %d in the dumped table", p, len(tags), len(spec))
		}
		for i, t := range tags {
			cs := centrifuge.VerifTagSlot(t)
			codeSlots[p] = append(codeSlots[p], cs)
			if cs != vh.Int(spec[i]) || slotOf(t) != vh.Int(spec[i]) {
				res.Violate("C35", "tagslot", fmt.Sprintf("size %d tag %q: TagSlot = %d, spec CRC16 mod 16384 = %d, harness CRC16 = %d", p, t, cs, vh.Int(spec[i]), slotOf(t)),
					map[string]any{"size": p, "tag": t})
			}
			res.Done(1, 1)
		}
		balanced[p] = map[int]bool{}
		res.Distinct(fmt.Sprintf("size|%d", p))
	}
	// 4. per (P, k) row: min / max per-node counts recomputed with the CODE's TagSlot and SlotToNode
	counts := func(p, k int, owner func(slot int) int) (int, int) {
		c := make([]int, k)
		for _, s := range codeSlots[p] {
			o := owner(s)
			if o < 0 || o >= k {
				res.Violate("C35", "slot-to-node", fmt.Sprintf("SlotToNode(%d, %d) = %d is not a node of a %d-master cluster", s, k, o, k), map[string]any{"slot": s, "k": k})
				continue
			}
			c[o]++
		}
		mn, mx := c[0], c[0]
		for _, x := range c {
			if x < mn {
				mn = x
			}
			if x > mx {
				mx = x
			}
		}
		return mn, mx
	}
	for _, r := range inp.Rows {
		if vh.Str(r[0]) != "bal" {
			continue
		}
		p, k, mn, mx := vh.Int(r[1]), vh.Int(r[2]), vh.Int(r[5]), vh.Int(r[6])
		cmn, cmx := counts(p, k, func(s int) int { return centrifuge.VerifSlotToNode(s, k) })
		if cmn != mn || cmx != mx {
			res.Violate("C35", "counts", fmt.Sprintf("size %d on %d nodes: per-node counts by the code's TagSlot/SlotToNode are [%d,%d], the spec computes [%d,%d]", p, k, cmn, cmx, mn, mx), map[string]any{"size": p, "k": k})
		}
		balanced[p][k] = true
		res.Done(1, 1)
		res.Distinct(fmt.Sprintf("bal|%d|%d", p, k))
	}
	// 5. the (P, k) pairs TLC did not enumerate in this tier: same formula (validated in 1.), code's slots
	extra, cliBad, cliPairs := 0, 0, 0
	var cliExample string
	for p, slots := range codeSlots {
		for k := 1; k <= p; k++ {
			if !balanced[p][k] {
				mn, mx := counts(p, k, func(s int) int { return centrifuge.VerifSlotToNode(s, k) })
				extra++
				if mx-mn > 1 {
					res.Violate("C35", fmt.Sprintf("balance:P=%d", p), fmt.Sprintf("size %d on %d nodes: per-node partition counts range over [%d,%d] (harness sweep with the spec's assignment)", p, k, mn, mx), map[string]any{"size": p, "k": k})
				}
			}
			// information: redis-cli's float split
			b := redisCliBounds(k)
			c := make([]int, k)
			node := 0
			for _, s := range sortedCopy(slots) {
				for s >= b[node+1] {
					node++
				}
				c[node]++
			}
			mn, mx := c[0], c[0]
			for _, x := range c {
				if x < mn {
					mn = x
				}
				if x > mx {
					mx = x
				}
			}
			cliPairs++
			if mx-mn > 1 {
				cliBad++
				if cliExample == "" {
					cliExample = fmt.Sprintf("P=%d k=%d counts in [%d,%d]", p, k, mn, mx)
				}
			}
		}
	}
	res.Count("balance_pairs_by_harness_sweep", extra)
	res.Extra["rediscli_float_split"] = map[string]any{"pairs": cliPairs, "imbalanced_by_more_than_1": cliBad, "example": cliExample,
		"note": "information only: redis-cli --cluster create boundaries reproduced from memory of redis-cli.c, not the assignment the package documents"}
	return nil
}

func sortedCopy(s []int) []int {
	c := append([]int{}, s...)
	for i := 1; i < len(c); i++ {
		for j := i; j > 0 && c[j] < c[j-1]; j-- {
			c[j], c[j-1] = c[j-1], c[j]
		}
	}
	return c
}
