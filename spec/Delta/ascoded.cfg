SPECIFICATION Spec
CONSTANTS
  MaxPub = 3
  HistSize = 2
  MaxFaults = 1
  MaxSess = 2
  Kinds = {"rec"}
  Filts = {FALSE, TRUE}
  Meds = {FALSE}
  AllowClear = FALSE
  DeltaOpts = {TRUE}
  PayKinds = {"sim"}
  AsCoded = TRUE
  Withhold = FALSE
VIEW View
INVARIANTS C14
CHECK_DEADLOCK FALSE
