package main

import (
	"encoding/json"
	"fmt"
	"strconv"
	"time"

	"github.com/centrifugal/centrifuge"

	"verifharness/vh"
)

// ringState is the projection of a model state of spec/Writer/Ring.tla (produced by fam/writer.py).
type ringState struct {
	Step    map[string]any `json:"step"`
	Head    int            `json:"head"`
	Tail    int            `json:"tail"`
	Cnt     int            `json:"cnt"`
	Size    int            `json:"size"`
	Cap     int            `json:"cap"`
	Closed  bool           `json:"closed"`
	InitCap int            `json:"initCap"`
}

type mitem struct {
	ID    int `json:"id"`
	Bytes int `json:"bytes"`
}

func mkItem(id, bytes int) centrifuge.VerifWQItem {
	return centrifuge.VerifWQItem{Data: make([]byte, bytes), Key: strconv.Itoa(id)}
}

func itemID(it centrifuge.VerifWQItem) int {
	id, err := strconv.Atoi(it.Key)
	if err != nil {
		return -1
	}
	return id
}

func modelItems(v any) []mitem {
	var out []mitem
	for _, x := range vh.List(v) {
		m := vh.Map(x)
		out = append(out, mitem{vh.Int(m["id"]), vh.Int(m["bytes"])})
	}
	return out
}

func realItems(its []centrifuge.VerifWQItem) []mitem {
	out := make([]mitem, 0, len(its))
	for _, it := range its {
		out = append(out, mitem{itemID(it), len(it.Data)})
	}
	return out
}

func sameItems(a, b []mitem) bool {
	if len(a) != len(b) {
		return false
	}
	for i := range a {
		if a[i] != b[i] {
			return false
		}
	}
	return true
}

func ringReplay(in json.RawMessage, res *vh.Result) error {
	var behs [][]ringState
	if err := json.Unmarshal(in, &behs); err != nil {
		return err
	}
	for bi, beh := range behs {
		if len(beh) == 0 {
			continue
		}
		replayRing(bi, beh, res)
	}
	return nil
}

func replayRing(bi int, beh []ringState, res *vh.Result) {
	q := centrifuge.VerifWNewQueue(beh[0].InitCap)
	poisoned := false // a panic inside the queue leaves its mutex locked: never touch that queue again
	defer func() {
		if !poisoned {
			q.Close() // stops a long-armed shrink timer
		}
	}()
	var ops []any
	completed := 1
	grew, shrankLive, wrapped := false, false, false
	prevCap := beh[0].Cap
	for si := 1; si < len(beh); si++ {
		st := beh[si]
		step := st.Step
		act := vh.Str(step["act"])
		ops = append(ops, step)
		replay := map[string]any{"initCap": beh[0].InitCap, "ops": ops}
		fail := func(sig, what string) {
			res.Violate("C12", sig, fmt.Sprintf("%s (behaviour %d step %d: %s)", what, bi, si, vh.J(step)), replay)
			completed = 0
		}
		var got []mitem
		var ok bool
		hasRes, hasOk := false, false
		panicked := func() (p any) {
			defer func() { p = recover() }()
			switch act {
			case "Add":
				it := modelItems(step["items"])[0]
				ok, hasOk = q.Add(mkItem(it.ID, it.Bytes)), true
			case "AddMany":
				var its []centrifuge.VerifWQItem
				for _, it := range modelItems(step["items"]) {
					its = append(its, mkItem(it.ID, it.Bytes))
				}
				ok, hasOk = q.AddMany(its...), true
			case "Remove":
				var it centrifuge.VerifWQItem
				it, ok = q.Remove()
				hasOk, hasRes = true, true
				if ok {
					got = realItems([]centrifuge.VerifWQItem{it})
				}
			case "RemoveMany":
				a := vh.Map(step["args"])
				var its []centrifuge.VerifWQItem
				its, ok = q.RemoveMany(vh.Int(a["max"]))
				hasOk, hasRes = true, true
				got = realItems(its)
			case "RemoveManyInto", "RemoveManyIntoShrink":
				a := vh.Map(step["args"])
				buf := make([]centrifuge.VerifWQItem, vh.Int(a["buflen"]))
				var n int
				if act == "RemoveManyInto" {
					n, ok = q.RemoveManyInto(buf, vh.Int(a["max"]))
				} else {
					n, ok = q.RemoveManyIntoShrink(buf, vh.Int(a["max"]))
				}
				hasOk, hasRes = true, true
				if n < 0 || n > len(buf) {
					fail("ring:count", fmt.Sprintf("%s returned n=%d for a buffer of %d", act, n, len(buf)))
					n = 0
				}
				got = realItems(buf[:n])
			case "FinishCollect":
				if vh.Bool(step["delayed"]) {
					q.FinishCollect(time.Hour)
				} else {
					q.FinishCollect(0)
				}
			case "FinishCollectFire":
				q.FinishCollect(time.Millisecond)
				deadline := time.Now().Add(5 * time.Second)
				for time.Now().Before(deadline) {
					h, t, _, _, l, _ := q.VerifState()
					if h == st.Head && t == st.Tail && l == st.Cap {
						break
					}
					time.Sleep(200 * time.Microsecond)
				}
			case "Close":
				q.Close()
			case "CloseRemaining":
				got, hasRes = realItems(q.CloseRemaining()), true
			case "Wait":
				ok, hasOk = q.Wait(), true
			default:
				panic("unknown ring action " + act)
			}
			return nil
		}()
		if panicked != nil {
			poisoned = true
			fail("ring:panic:"+act, fmt.Sprintf("%s panicked: %v (the model returns normally)", act, panicked))
			break
		}
		if hasOk && ok != vh.Bool(step["ok"]) {
			fail("ring:ok:"+act, fmt.Sprintf("%s returned ok=%v, the FIFO prescribes %v", act, ok, vh.Bool(step["ok"])))
		}
		if hasRes {
			exp := modelItems(step["res"])
			if !sameItems(got, exp) {
				fail("ring:items:"+act, fmt.Sprintf("%s returned items %s, the FIFO prescribes %s", act, vh.J(got), vh.J(exp)))
			}
		}
		if l := q.Len(); l != st.Cnt {
			fail("ring:len", fmt.Sprintf("Len()=%d after %s, model %d", l, act, st.Cnt))
		}
		if s := q.Size(); s != st.Size {
			fail("ring:size", fmt.Sprintf("Size()=%d after %s, model %d", s, act, st.Size))
		}
		if completed == 0 {
			break
		}
		// capacity and cursor positions: part of the projection (a wrong resize shows here even when the
		// order survives), but not of the statement -> drift
		h, t, _, _, l, closed := q.VerifState()
		if c := q.Cap(); c != st.Cap || l != st.Cap {
			res.Drift("C12", fmt.Sprintf("ring: Cap()=%d len(nodes)=%d after %s, model %d (behaviour %d step %d)", c, l, act, st.Cap, bi, si), replay)
			completed = 0
			break
		}
		if closed != st.Closed || (!closed && (h != st.Head || t != st.Tail)) {
			res.Drift("C12", fmt.Sprintf("ring: head=%d tail=%d closed=%v after %s, model head=%d tail=%d closed=%v (behaviour %d step %d)",
				h, t, closed, act, st.Head, st.Tail, st.Closed, bi, si), replay)
			completed = 0
			break
		}
		if st.Cap > prevCap && prevCap > 0 {
			grew = true
			if beh[si-1].Head > 0 {
				wrapped = true
			}
		}
		if st.Cap < prevCap && st.Cnt > 0 {
			shrankLive = true
		}
		prevCap = st.Cap
	}
	if grew && shrankLive && wrapped && completed == 1 {
		res.Distinct(vh.J(ops))
	}
	if bi < 2 {
		res.Sample(map[string]any{"initCap": beh[0].InitCap, "ops": ops})
	}
	res.Count("ring_ops", len(ops))
	res.Done(1, completed)
}
