------------------------------- MODULE Medium -------------------------------
(* The channel medium of one channel on one node: channel_medium.go
   (broadcastPublication, broadcastInsufficientState, broadcast, the queue and
   its writer goroutine with optional broadcast delay, CheckPosition, close),
   node.go (HandlePublication routing through the medium, checkPosition,
   medium creation by the first subscriber / shutdown by the dissolver) and the
   consumers in client.go (writePublicationUpdatePosition for positioned and
   non-positioned subscribers, the periodic position check, the asynchronous
   insufficient-state unsubscribe).

   Property decided here: C38 -- with any medium option set, every subscriber
   receives the channel's publications in order; a positioned subscriber either
   gets every offset after its subscribe position or is ended with insufficient
   state; a detected position loss ends every positioned subscription of the
   channel; the MaxUint64 sentinel is never delivered as a publication.

   Threads: the PUB/SUB delivery (Deliver: one call of Node.HandlePublication),
   the medium's writer goroutine (WriterTake / WriterDone, or WriterTick when a
   broadcast delay is set), the periodic tick of the connections (Tick), the
   spawned insufficient-state goroutines (AsyncEnd), client commands
   (Unsubscribe / Resubscribe) and the dissolver (Shutdown).  With Urgent = TRUE
   the asynchronous goroutines run as soon as they can (what a replay without
   hooks can realise: the writer can only be held inside a broadcast, through
   the trace log entry of a subscriber: WriterTake(park)); with FALSE they are
   delayed arbitrarily (design check).                                        *)
EXTENDS Integers, Sequences, FiniteSets, TLC

CONSTANTS
  Subs,          \* subscribers: subset of {"p1", "p2", "n"}; p* positioned, n not
  OptSets,       \* medium option sets offered: records [keep, shared, queue, delay]
  MaxPub, MaxFaults, MaxTicks, MaxResub,
  QMax,          \* queueMaxSize in bytes (every payload is one byte)
  Urgent,
  Timed,         \* TRUE: explicit clock (Advance / TickOne per connection); FALSE: Tick abstracts "the delay elapsed"
  CheckDelay,    \* ClientChannelPositionCheckDelay in seconds
  Advances,      \* clock steps offered to Advance
  MaxNow

Positioned(s) == s \in {"p1", "p2"}
InsufficientCode == 2500
Sentinel == [t |-> "ins", off |-> 0]

VARIABLES
  opts,          \* the channel's ChannelMediumOptions
  top,           \* broker stream top (history keeps the position)
  wire,          \* offsets handed over by the broker, not yet delivered to the node
  npub, faults, nticks, nresub,
  med,           \* a channelMedium object exists for the channel
  q,             \* its queue
  wpc, witem,    \* writer goroutine: "idle" | "busy" (inside broadcast of witem)
  latest,        \* offset of latestPublication
  sub,           \* per subscriber [st: "live" | "ended" | "none", pos]
  pend,          \* per subscriber: spawned, not yet executed insufficient-state goroutines
  out,           \* per subscriber: frames received
  dlv,           \* history: offsets in the order they entered the node
  now,           \* clock in seconds (stays 0 when ~Timed)
  mct,           \* channelMedium.positionCheckTime: moved by broadcasts, by the sentinel and by PERFORMED checks only
  cct,           \* per subscriber: ChannelContext.positionCheckTime (subscribe, accepted publication, valid check)
  step

clk == <<now, mct, cct>>
vars == <<opts, top, wire, npub, faults, nticks, nresub, med, q, wpc, witem, latest, sub, pend, out, dlv, now, mct, cct, step>>

OptAll == {o \in [keep : BOOLEAN, shared : BOOLEAN, queue : BOOLEAN, delay : BOOLEAN] : o.delay => o.queue}
OptQueue == {o \in OptAll : o.queue}
OptDirect == {o \in OptAll : ~o.queue}
OptShared == {o \in OptAll : o.shared /\ ~o.keep}
OptSharedOnly == {o \in OptShared : ~o.queue}
OptSharedQD == {o \in OptShared : o.queue <=> o.delay}

Enabled(o) == o.keep \/ o.shared \/ o.queue \/ o.delay      \* isMediumEnabled
Live(s) == sub[s].st = "live"
AnyLive == \E s \in Subs : Live(s)

Init ==
  /\ opts \in OptSets
  /\ top = 0 /\ wire = {} /\ npub = 0 /\ faults = 0 /\ nticks = 0 /\ nresub = 0
  /\ med = Enabled(opts) /\ q = <<>> /\ wpc = "idle" /\ witem = Sentinel /\ latest = 0
  /\ sub = [s \in Subs |-> [st |-> "live", pos |-> 0]]
  /\ pend = [s \in Subs |-> 0]
  /\ out = [s \in Subs |-> <<[t |-> "sub", off |-> 0]>>]
  /\ dlv = <<>>
  /\ now = 0 /\ mct = 0 /\ cct = [s \in Subs |-> 0]
  /\ step = [act |-> "Init"]

---------------------------------------------------------------------------
(* hub broadcast of one item to every subscriber (writePublicationUpdatePosition) *)
Recv(s, it) ==     \* [sub, pend, out] of subscriber s after receiving item it
  IF ~Live(s) THEN [sub |-> sub[s], pend |-> pend[s], out |-> out[s]]
  ELSE IF ~Positioned(s)
    THEN [sub |-> sub[s], pend |-> pend[s],
          out |-> IF it.t = "pub" THEN Append(out[s], [t |-> "pub", off |-> it.off]) ELSE out[s]]   \* sentinel: noop
  ELSE IF it.t = "ins" \/ it.off > sub[s].pos + 1
    THEN [sub |-> sub[s], pend |-> pend[s] + 1, out |-> out[s]]          \* go handleInsufficientState
  ELSE IF it.off < sub[s].pos + 1
    THEN [sub |-> sub[s], pend |-> pend[s], out |-> out[s]]              \* stale: skipped
  ELSE [sub |-> [sub[s] EXCEPT !.pos = it.off], pend |-> pend[s],
        out |-> Append(out[s], [t |-> "pub", off |-> it.off])]

Accepts(s, it) == Live(s) /\ Positioned(s) /\ it.t = "pub" /\ it.off = sub[s].pos + 1
Broadcast(it) ==
  /\ cct' = [s \in Subs |-> IF Accepts(s, it) THEN now ELSE cct[s]]
  /\ sub'  = [s \in Subs |-> Recv(s, it).sub]
  /\ pend' = [s \in Subs |-> Recv(s, it).pend]
  /\ out'  = [s \in Subs |-> Recv(s, it).out]
  /\ latest' = IF med /\ opts.keep /\ it.t = "pub" THEN it.off ELSE latest

\* a subscriber will write a frame for the item (there is a trace log entry the writer can be held in)
Writes(it) == it.t = "pub" /\ \E s \in Subs : Live(s) /\ (~Positioned(s) \/ it.off = sub[s].pos + 1)

QBytes == Len(SelectSeq(q, LAMBDA e : e.t = "pub"))

---------------------------------------------------------------------------
Publish ==
  /\ npub < MaxPub
  /\ npub' = npub + 1 /\ top' = top + 1 /\ wire' = wire \cup {top + 1}
  /\ UNCHANGED <<opts, faults, nticks, nresub, med, q, wpc, witem, latest, sub, pend, out, dlv, clk>>
  /\ step' = [act |-> "Publish", off |-> top + 1]

Drop(o) ==                                        \* PUB/SUB loss
  /\ o \in wire /\ faults < MaxFaults
  /\ faults' = faults + 1 /\ wire' = wire \ {o}
  /\ UNCHANGED <<opts, top, npub, nticks, nresub, med, q, wpc, witem, latest, sub, pend, out, dlv, clk>>
  /\ step' = [act |-> "Drop", off |-> o]

\* Node.HandlePublication -> medium.broadcastPublication (or straight to the hub without a medium)
Deliver(o) ==
  /\ o \in wire
  /\ LET ooo == \E x \in wire : x < o IN
       /\ faults + (IF ooo THEN 1 ELSE 0) <= MaxFaults
       /\ faults' = faults + (IF ooo THEN 1 ELSE 0)
  /\ wire' = wire \ {o}
  /\ dlv' = Append(dlv, o)
  /\ LET it == [t |-> "pub", off |-> o] IN
     IF med /\ opts.queue
       THEN IF QBytes > QMax
              THEN /\ UNCHANGED <<q, latest, sub, pend, out, cct>>           \* queue full: dropped, nobody is told
                   /\ step' = [act |-> "Deliver", off |-> o, res |-> "dropped"]
              ELSE /\ q' = Append(q, it) /\ UNCHANGED <<latest, sub, pend, out, cct>>
                   /\ step' = [act |-> "Deliver", off |-> o, res |-> "queued"]
       ELSE /\ Broadcast(it) /\ UNCHANGED q
            /\ step' = [act |-> "Deliver", off |-> o, res |-> "broadcast"]
  /\ mct' = IF med THEN now ELSE mct        \* broadcastPublication stamps positionCheckTime first
  /\ UNCHANGED <<opts, top, npub, nticks, nresub, med, wpc, witem, now>>

\* writer goroutine, no delay: waitSendPub(0)
WriterCanTake == med /\ opts.queue /\ ~opts.delay /\ wpc = "idle" /\ q # <<>>
WriterTake(park) ==
  /\ WriterCanTake
  /\ q' = Tail(q)
  /\ IF park /\ Writes(Head(q))
       THEN /\ wpc' = "busy" /\ witem' = Head(q) /\ UNCHANGED <<latest, sub, pend, out, cct>>
            /\ step' = [act |-> "WriterTake", park |-> TRUE, item |-> Head(q)]
       ELSE /\ Broadcast(Head(q)) /\ UNCHANGED <<wpc, witem>>
            /\ step' = [act |-> "WriterTake", park |-> FALSE, item |-> Head(q)]
  /\ UNCHANGED <<opts, top, wire, npub, faults, nticks, nresub, med, dlv, now, mct>>

WriterDone ==
  /\ wpc = "busy"
  /\ Broadcast(witem) /\ wpc' = "idle" /\ witem' = Sentinel
  /\ UNCHANGED <<opts, top, wire, npub, faults, nticks, nresub, med, q, dlv, now, mct>>
  /\ step' = [act |-> "WriterDone", item |-> witem]

\* writer goroutine with broadcast delay: after the delay take the first message; a sentinel is broadcast at once,
\* otherwise drain what is queued now (stopping at a sentinel) and broadcast only the last message taken
FirstIns(s) == IF \E i \in 1..Len(s) : s[i].t = "ins"
                 THEN CHOOSE i \in 1..Len(s) : s[i].t = "ins" /\ \A j \in 1..(i - 1) : s[j].t # "ins" ELSE 0
WriterTick ==
  /\ med /\ opts.queue /\ opts.delay /\ q # <<>>
  /\ LET first == Head(q)
         rest  == Tail(q)
         k     == FirstIns(rest)
         msg   == IF first.t = "ins" THEN first
                  ELSE IF k # 0 THEN rest[k]
                  ELSE IF rest = <<>> THEN first ELSE rest[Len(rest)]
         left  == IF first.t = "ins" THEN rest
                  ELSE IF k # 0 THEN SubSeq(rest, k + 1, Len(rest)) ELSE <<>>
     IN /\ q' = left /\ Broadcast(msg)
        /\ step' = [act |-> "WriterTick", item |-> msg, skipped |-> Len(q) - Len(left) - 1]
  /\ UNCHANGED <<opts, top, wire, npub, faults, nticks, nresub, med, wpc, witem, dlv, now, mct>>

\* handleInsufficientState goroutine of a client-side subscription: unsubscribe + unsubscribe push
AsyncEnd(s) ==
  /\ pend[s] > 0
  /\ pend' = [pend EXCEPT ![s] = @ - 1]
  /\ sub' = IF Live(s) THEN [sub EXCEPT ![s].st = "ended"] ELSE sub
  /\ out' = [out EXCEPT ![s] = Append(@, [t |-> "unsub", code |-> InsufficientCode])]   \* pushed even when already gone
  /\ UNCHANGED <<opts, top, wire, npub, faults, nticks, nresub, med, q, wpc, witem, latest, dlv, clk>>
  /\ step' = [act |-> "AsyncEnd", s |-> s]

\* The periodic tick of every connection with a live positioned subscription, the check delay having elapsed.
\* res = "error": the broker's history call fails (checked again later).
\* Without SharedPositionSync every caller compares its own position with the stream top and ends itself on a
\* mismatch.  With it, medium.CheckPosition runs once per check delay with the position of whichever caller `c`
\* arrives first (the others return "valid" unchecked); on a mismatch broadcastInsufficientState reaches every
\* positioned subscriber of the channel, and the caller ends itself as well.
Callers == {s \in Subs : Positioned(s) /\ Live(s)}
Tick(res, c) ==
  /\ ~Timed
  /\ nticks < MaxTicks /\ nticks' = nticks + 1
  /\ c \in Callers
  /\ IF res = "error"
       THEN /\ UNCHANGED <<q, latest, sub, pend, out>>
            /\ step' = [act |-> "Tick", res |-> "error", first |-> c, stale |-> {}]
     ELSE IF med /\ opts.shared
       THEN IF sub[c].pos = top
              THEN /\ UNCHANGED <<q, latest, sub, pend, out>>
                   /\ step' = [act |-> "Tick", res |-> "valid", first |-> c, stale |-> {s \in Callers : sub[s].pos # top}]
              ELSE /\ step' = [act |-> "Tick", res |-> "invalid", first |-> c, stale |-> {s \in Callers : sub[s].pos # top}]
                   /\ IF opts.queue
                        THEN /\ q' = Append(q, Sentinel)
                             /\ pend' = [pend EXCEPT ![c] = @ + 1]
                             /\ UNCHANGED <<latest, sub, out>>
                        ELSE \* sentinel broadcast directly (broadcastMu), plus the caller's own end
                             /\ pend' = [s \in Subs |-> IF s = c THEN pend[s] + 2 ELSE IF s \in Callers THEN pend[s] + 1 ELSE pend[s]]
                             /\ UNCHANGED <<q, latest, sub, out>>
       ELSE LET bad == {s \in Callers : sub[s].pos # top} IN
            /\ pend' = [s \in Subs |-> IF s \in bad THEN pend[s] + 1 ELSE pend[s]]
            /\ UNCHANGED <<q, latest, sub, out>>
            /\ step' = [act |-> "Tick", res |-> IF bad = {} THEN "valid" ELSE "invalid", first |-> c, stale |-> bad]
  /\ UNCHANGED <<opts, top, wire, npub, faults, nresub, med, wpc, witem, dlv, clk>>

\* Timed form.  The clock advances; one connection's periodic tick runs Client.checkPosition for its subscription:
\*   due       == now - cct[s] > CheckDelay                       (client.go: nowUnix - positionCheckTime > delay)
\*   shared:      performed == now - mct >= CheckDelay; ONLY THEN mct' = now       (channelMedium.CheckPosition);
\*                not performed, or the history call failed: answered "valid" without looking at the stream;
\*                performed and pos # top: broadcastInsufficientState (stamps mct, reaches every positioned
\*                subscriber) and the caller's own end
\*   otherwise:   the caller compares its own position; a failed history call is retried at the next tick
\*   a "valid" answer stamps cct[s] = now.
Advance(d) ==
  /\ Timed /\ now + d <= MaxNow
  /\ now' = now + d
  /\ UNCHANGED <<opts, top, wire, npub, faults, nticks, nresub, med, q, wpc, witem, latest, sub, pend, out, dlv, mct, cct>>
  /\ step' = [act |-> "Advance", d |-> d, now |-> now + d]

TickOne(s, res) ==
  /\ Timed /\ Positioned(s) /\ Live(s)
  /\ nticks < MaxTicks /\ nticks' = nticks + 1
  /\ LET due  == now - cct[s] > CheckDelay
         shr  == med /\ opts.shared
         perf == due /\ (shr => now - mct >= CheckDelay)
         bad  == sub[s].pos # top
         rec(r) == [act |-> "TickOne", s |-> s, due |-> due, performed |-> perf, res |-> r, now |-> now]
     IN IF ~due
          THEN /\ UNCHANGED <<q, latest, sub, pend, out, mct, cct>> /\ step' = rec("notdue")
        ELSE IF shr /\ ~perf
          THEN /\ cct' = [cct EXCEPT ![s] = now]
               /\ UNCHANGED <<q, latest, sub, pend, out, mct>> /\ step' = rec("skipped")
        ELSE IF res = "error"
          THEN /\ mct' = IF shr THEN now ELSE mct
               /\ cct' = IF shr THEN [cct EXCEPT ![s] = now] ELSE cct       \* the medium answers true on an error
               /\ UNCHANGED <<q, latest, sub, pend, out>> /\ step' = rec("error")
        ELSE IF ~bad
          THEN /\ mct' = IF shr THEN now ELSE mct
               /\ cct' = [cct EXCEPT ![s] = now]
               /\ UNCHANGED <<q, latest, sub, pend, out>> /\ step' = rec("valid")
        ELSE /\ step' = rec("invalid")
             /\ mct' = IF shr THEN now ELSE mct
             /\ UNCHANGED <<latest, sub, out, cct>>
             /\ IF shr
                  THEN IF opts.queue
                         THEN /\ q' = Append(q, Sentinel) /\ pend' = [pend EXCEPT ![s] = @ + 1]
                         ELSE /\ pend' = [x \in Subs |-> IF x = s THEN pend[x] + 2 ELSE IF x \in Callers THEN pend[x] + 1 ELSE pend[x]]
                              /\ UNCHANGED q
                  ELSE /\ pend' = [pend EXCEPT ![s] = @ + 1] /\ UNCHANGED q
  /\ UNCHANGED <<opts, top, wire, npub, faults, nresub, med, wpc, witem, dlv, now>>

\* client command: unsubscribe (reply written)
Unsubscribe(s) ==
  /\ Live(s) /\ nresub < MaxResub
  /\ sub' = [sub EXCEPT ![s].st = "none"]
  /\ out' = [out EXCEPT ![s] = Append(@, [t |-> "unsubreply"])]
  /\ UNCHANGED <<opts, top, wire, npub, faults, nticks, nresub, med, q, wpc, witem, latest, pend, dlv, clk>>
  /\ step' = [act |-> "Unsubscribe", s |-> s]

\* the dissolver, >= 1 s after the last subscriber left: medium.close(), the queue is discarded
Shutdown ==
  /\ med /\ ~AnyLive /\ wpc = "idle" /\ \A s \in Subs : pend[s] = 0
  /\ med' = FALSE /\ q' = <<>> /\ latest' = 0
  /\ UNCHANGED <<opts, top, wire, npub, faults, nticks, nresub, wpc, witem, sub, pend, out, dlv, clk>>
  /\ step' = [act |-> "Shutdown"]

\* client command: subscribe again (position = current stream top); the first subscriber creates a new medium.
\* Not modelled: a first subscriber arriving before the dissolver closed the previous medium object.
Resubscribe(s) ==
  /\ sub[s].st # "live" /\ pend[s] = 0 /\ nresub < MaxResub
  /\ AnyLive \/ ~med
  /\ nresub' = nresub + 1
  /\ med' = IF AnyLive THEN med ELSE Enabled(opts)
  /\ sub' = [sub EXCEPT ![s] = [st |-> "live", pos |-> top]]
  /\ out' = [out EXCEPT ![s] = Append(@, [t |-> "sub", off |-> IF Positioned(s) THEN top ELSE 0])]
  /\ cct' = [cct EXCEPT ![s] = now]
  /\ mct' = IF AnyLive THEN mct ELSE now           \* newChannelMedium stamps positionCheckTime
  /\ UNCHANGED <<opts, top, wire, npub, faults, nticks, q, wpc, witem, latest, pend, dlv, now>>
  /\ step' = [act |-> "Resubscribe", s |-> s]

Quiet == q = <<>> /\ wpc = "idle"
\* a sentinel queued by a tick in delay mode: the delay runs while nothing else happens (replay: real time)
SentinelWaits == med /\ opts.queue /\ opts.delay /\ q # <<>> /\ Head(q).t = "ins"

Next ==
  IF Urgent /\ \E s \in Subs : pend[s] > 0 THEN \E s \in Subs : AsyncEnd(s)
  ELSE IF Urgent /\ WriterCanTake THEN \E p \in BOOLEAN : WriterTake(p)
  ELSE IF Urgent /\ SentinelWaits THEN (WriterTick \/ \E o \in wire : Deliver(o))   \* the delay window is short
  ELSE
    \/ Publish
    \/ \E o \in wire : Drop(o) \/ Deliver(o)
    \/ \E p \in BOOLEAN : WriterTake(p)
    \/ WriterDone \/ WriterTick
    \/ \E s \in Subs : AsyncEnd(s)
    \/ \E r \in {"ok", "error"}, c \in Subs : (Urgent => Quiet) /\ Tick(r, c)
    \/ \E r \in {"ok", "error"}, c \in Subs : (Urgent => Quiet) /\ TickOne(c, r)
    \/ \E d \in Advances : (Urgent => Quiet) /\ Advance(d)
    \/ \E s \in Subs : (Urgent => Quiet) /\ (Unsubscribe(s) \/ Resubscribe(s))
    \/ (Urgent => Quiet) /\ Shutdown

Spec == Init /\ [][Next]_vars

---------------------------------------------------------------------------
(* C38: observable-only monitors over `out` (frames of each subscriber), `dlv` (the order in which publications
   entered the node) and `top` (what the driver published).  The Go harness evaluates the same formulas on the
   real frames. *)

\* the frames of the current (last) subscription of s
LastSubIdx(s) == CHOOSE i \in 1..Len(out[s]) : out[s][i].t = "sub" /\ \A j \in (i + 1)..Len(out[s]) : out[s][j].t # "sub"
Seg(s)  == SubSeq(out[s], LastSubIdx(s), Len(out[s]))
PubOffs(fr) == LET ps == SelectSeq(fr, LAMBDA x : x.t = "pub") IN [i \in 1..Len(ps) |-> ps[i].off]
EndIdx(fr) == IF \E i \in 1..Len(fr) : fr[i].t \in {"unsub", "unsubreply"}
                THEN CHOOSE i \in 1..Len(fr) : fr[i].t \in {"unsub", "unsubreply"} /\ \A j \in 1..(i - 1) : fr[j].t \notin {"unsub", "unsubreply"}
                ELSE 0
\* every subscription of s: the segments between "sub" frames
SubIdxs(s) == {i \in 1..Len(out[s]) : out[s][i].t = "sub"}
SegFrom(s, i) == LET nxt == {j \in SubIdxs(s) : j > i}
                     e == IF nxt = {} THEN Len(out[s]) ELSE (CHOOSE j \in nxt : \A k \in nxt : j <= k) - 1
                 IN SubSeq(out[s], i, e)

IsSubseq(a, b) ==      \* a is a subsequence of b (both without repetitions)
  /\ \A i \in 1..Len(a) : \E j \in 1..Len(b) : b[j] = a[i]
  /\ \A i, k \in 1..Len(a) : i < k =>
        (CHOOSE j \in 1..Len(b) : b[j] = a[i]) < (CHOOSE j \in 1..Len(b) : b[j] = a[k])

\* every subscriber receives publications in the order they entered the node, each at most once
InOrder == \A s \in Subs : \A i \in SubIdxs(s) :
             LET offs == PubOffs(SegFrom(s, i)) IN
             /\ \A a, b \in 1..Len(offs) : a # b => offs[a] # offs[b]
             /\ IsSubseq(offs, dlv)
\* a positioned subscriber sees consecutive offsets from its subscribe position
GapFree == \A s \in Subs : Positioned(s) => \A i \in SubIdxs(s) :
             LET fr == SegFrom(s, i)
                 offs == PubOffs(fr)
             IN \A a \in 1..Len(offs) : offs[a] = fr[1].off + a
\* nothing after the subscription ended; the sentinel never shows up as a publication
Bracketed == \A s \in Subs : \A i \in SubIdxs(s) :
               LET fr == SegFrom(s, i) IN
               \A a \in 1..Len(fr) : fr[a].t = "pub" =>
                  /\ (EndIdx(fr) # 0 => a < EndIdx(fr))
                  /\ fr[a].off >= 1 /\ fr[a].off <= top
\* a detected position loss ends every positioned subscription: after a tick that compared positions (no error),
\* once the asynchronous ends ran, a live positioned subscriber holds the stream top
\* a detected position loss ends the affected positioned subscriptions: every one of the channel with the shared
\* check (sentinel queued or insufficient-state goroutine spawned), the caller's own otherwise
TickEnds == [][ (step'.act = "Tick" /\ step'.res = "invalid") =>
                  \A s \in Subs : (Positioned(s) /\ Live(s) /\ ((med /\ opts.shared) \/ s \in step'.stale)) =>
                      (pend'[s] > pend[s] \/ \E e \in 1..Len(q') : q'[e].t = "ins") ]_vars
\* without the shared check no stale position survives a tick; with it the verdict is the first caller's
TickExact == [][ (step'.act = "Tick" /\ step'.res # "error") =>
                   IF med /\ opts.shared
                     THEN (step'.res = "invalid") <=> (sub[step'.first].pos # top)
                     ELSE (step'.res = "invalid") <=> (step'.stale # {}) ]_vars
\* timed form: the medium consults the stream exactly when the delay elapsed since the last PERFORMED check (or
\* broadcast); a performed comparison that finds a stale position ends the affected subscriptions
TickOneExact == [][ step'.act = "TickOne" =>
                      /\ step'.due <=> (now - cct[step'.s] > CheckDelay)
                      /\ step'.performed <=> (step'.due /\ ((med /\ opts.shared) => now - mct >= CheckDelay))
                      /\ (step'.performed /\ step'.res # "error") => ((step'.res = "invalid") <=> (sub[step'.s].pos # top))
                      /\ (step'.res = "invalid") =>
                           \A x \in Subs : (Positioned(x) /\ Live(x) /\ ((med /\ opts.shared) \/ x = step'.s)) =>
                               (pend'[x] > pend[x] \/ \E e \in 1..Len(q') : q'[e].t = "ins") ]_vars
\* only performed checks (and broadcasts) move the medium's timestamp
StampMoves == [][ (mct' # mct) => \/ step'.act \in {"Deliver", "Resubscribe"}
                                   \/ (step'.act = "TickOne" /\ step'.performed) ]_vars
\* state form used by the harness at quiescent points after a Tick: LivePositionedAtTop
NoSilentLoss == (Quiet /\ \A s \in Subs : pend[s] = 0) =>
                   \A s \in Subs : (Positioned(s) /\ Live(s)) =>
                      LET offs == PubOffs(Seg(s)) IN
                      sub[s].pos = Seg(s)[1].off + Len(offs)

TypeOK == /\ faults <= MaxFaults /\ npub <= MaxPub /\ top = npub
          /\ \A s \in Subs : pend[s] >= 0
          /\ (wpc = "busy") => (med /\ opts.queue)
          /\ (~med) => (q = <<>>)

View == <<opts, top, wire, npub, faults, nticks, nresub, med, q, wpc, witem, latest, sub, pend, out, dlv, now, mct, cct>>
=============================================================================
