------------------------------ MODULE SubClose ------------------------------
(* C05 on the shared-poll subscribe path: one connection, one keyed
   subscription with presence + join/leave options.

   client_shared_poll.go handleSharedPollSubscribe:
     SReserve   reservation in c.channels with the wait gate (subscribingCh)
     (cb)       OnSubscribe handler - application callback, may answer later   gate "onsubscribe"
     SFinalize  under c.mu: reservation identity, closed re-check, live channel
                context + keyed state installed (the stored context carries no gate)
     (opts)     GetSharedPollChannelOptions - application callback             gate "options"
     SReply     reply, handleCommandFinished -> OnCommandProcessed             gate "processed"
     SPresence  setupMapPresenceAndJoin: presence + join; then the gate is released
   client.go close() / unsubscribe():
     CloseA     status closed, channels snapshotted, connection leaves the hub;
                unsubscribe of the channel: a reservation with a gate is waited
                for (up to 5 s), a live subscription is torn down at once
     CloseWake  the gate was released: re-read, tear down what is there
     CloseWaitTimeout   the 5 s elapsed: the gate is closed and nil-ed in the
                reservation, the reservation stays, close() goes on
     CloseEnd   OnDisconnect

   Switches: ClosedCheck (as coded TRUE; FALSE = the closed branch of SFinalize
   removed), PresenceRecheck (reference TRUE: presence / join are only left in
   place for a subscription that still exists afterwards; as coded FALSE).

   C05: after close() has completed and the subscribe command has returned,
   nothing of the connection remains: no channel entry, no keyed state, no
   presence, every join has its leave.                                        *)
EXTENDS Integers, TLC

CONSTANTS ClosedCheck, PresenceRecheck

VARIABLES closed, chan, gate, keyed, pres, joins, leaves, sp, cp, step
vars == <<closed, chan, gate, keyed, pres, joins, leaves, sp, cp, step>>

Init ==
  /\ closed = FALSE /\ chan = "none" /\ gate = "none" /\ keyed = FALSE /\ pres = FALSE /\ joins = 0 /\ leaves = 0
  /\ sp = "idle" /\ cp = "idle" /\ step = [act |-> "Init"]

SReserve ==
  /\ sp = "idle" /\ ~closed /\ chan = "none"
  /\ chan' = "resv" /\ gate' = "armed" /\ sp' = "cb"
  /\ UNCHANGED <<closed, keyed, pres, joins, leaves, cp>>
  /\ step' = [act |-> "SReserve"]

SFinalize ==
  /\ sp = "cb"
  /\ IF chan # "resv"
       THEN sp' = "done" /\ UNCHANGED <<chan, gate, keyed>>                           \* reservation lost
       ELSE IF closed /\ ClosedCheck
         THEN /\ chan' = "none" /\ gate' = "none" /\ sp' = "done" /\ UNCHANGED keyed  \* drop reservation, release the gate
         ELSE /\ chan' = "live" /\ keyed' = TRUE /\ sp' = "opts" /\ UNCHANGED gate
  /\ UNCHANGED <<closed, pres, joins, leaves, cp>>
  /\ step' = [act |-> "SFinalize"]

SOpts ==
  /\ sp = "opts" /\ sp' = "reply"
  /\ UNCHANGED <<closed, chan, gate, keyed, pres, joins, leaves, cp>>
  /\ step' = [act |-> "SOpts"]

SReply ==
  /\ sp = "reply" /\ sp' = "presence"
  /\ UNCHANGED <<closed, chan, gate, keyed, pres, joins, leaves, cp>>
  /\ step' = [act |-> "SReply"]

SPresence ==
  /\ sp = "presence"
  /\ IF PresenceRecheck /\ chan # "live"
       THEN UNCHANGED <<pres, joins>>
       ELSE pres' = TRUE /\ joins' = joins + 1
  /\ gate' = "none"                              \* deferred close(gateCh)
  /\ sp' = "done"
  /\ UNCHANGED <<closed, chan, keyed, leaves, cp>>
  /\ step' = [act |-> "SPresence"]

Teardown ==
  /\ chan' = "none" /\ keyed' = FALSE /\ pres' = FALSE
  /\ leaves' = IF chan = "live" THEN joins ELSE leaves

CloseA ==
  /\ cp = "idle" /\ ~closed
  /\ closed' = TRUE
  /\ IF chan = "resv" /\ gate = "armed"
       THEN cp' = "wait" /\ UNCHANGED <<chan, keyed, pres, leaves>>
       ELSE IF chan = "live" THEN Teardown /\ cp' = "end"
       ELSE cp' = "end" /\ UNCHANGED <<chan, keyed, pres, leaves>>
  /\ UNCHANGED <<gate, joins, sp>>
  /\ step' = [act |-> "CloseA"]

CloseWake ==
  /\ cp = "wait" /\ gate = "none"
  /\ IF chan = "none" THEN UNCHANGED <<chan, keyed, pres, leaves>> ELSE Teardown
  /\ cp' = "end"
  /\ UNCHANGED <<closed, gate, joins, sp>>
  /\ step' = [act |-> "CloseWake"]

CloseWaitTimeout ==
  /\ cp = "wait" /\ gate = "armed"
  /\ gate' = "none" /\ cp' = "end"
  /\ UNCHANGED <<closed, chan, keyed, pres, joins, leaves, sp>>
  /\ step' = [act |-> "CloseWaitTimeout"]

CloseEnd ==
  /\ cp = "end" /\ cp' = "done"
  /\ UNCHANGED <<closed, chan, gate, keyed, pres, joins, leaves, sp>>
  /\ step' = [act |-> "CloseEnd"]

Next == SReserve \/ SFinalize \/ SOpts \/ SReply \/ SPresence \/ CloseA \/ CloseWake \/ CloseWaitTimeout \/ CloseEnd
Spec == Init /\ [][Next]_vars

Quiet == sp \in {"idle", "done"} /\ cp = "done"
C05_KeyedSub == Quiet => (chan = "none" /\ ~keyed /\ ~pres /\ joins = leaves)
\* scenario (negated as invariant by sc_scn.cfg): close() has given up waiting and finished while the OnSubscribe
\* handler has not answered yet - the behaviour ends there, the replay then lets the handler answer (finalize after close)
NotScnCloseDoneWhileParked == ~(cp = "done" /\ sp = "cb")
View == <<closed, chan, gate, keyed, pres, joins, leaves, sp, cp>>
=============================================================================
