SPECIFICATION Spec
CONSTANTS
  MaxNow = 5
  MaxActs = 7
  CfgSet <- CfgAllT
  ServerZeroRearms = FALSE
INVARIANTS WitStaleAfterFailedConnect
CHECK_DEADLOCK FALSE
