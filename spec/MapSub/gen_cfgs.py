#!/usr/bin/env python3
"""Generates the TLC configuration files of spec/MapSub (run from anywhere: `python3 spec/MapSub/gen_cfgs.py`).
Naming: quick_* / thorough_* exhaustive, sim_* behaviour generators for the replay (module MapSubSim), full_* / lag2_coded
expected-violation configurations that document the findings at model level.  Suffixes: _coded = stream reads as coded,
_fixed = with the continuity check (Contig), _fixed2 = additionally stale buffered publications dropped (DropStale);
fam/mapsub.py probes the real tree and picks the suffix."""
import os, sys
D = os.path.dirname(os.path.abspath(__file__))
def cfg(name, **k):
    d=dict(NK=2, MaxOps=3, MaxLag=1, MaxResub=1, LiveLimit=3, Modes='{"rec"}', Kinds='{"fresh"}', Pages='{1, 2}', SSizes='{1, 2}',
           Filts='{"none"}', Ops='{"pub", "rem", "exp", "sexp", "clear"}', Pres=None, N0s='{0}', MaxJumps=0, EpochCheck='TRUE', Contig='FALSE', DropStale='FALSE', view=True, coded=True, sim=False, noinv=False)
    d.update(k)
    if d['Pres'] is None: d['Pres']='{%d}'%d['MaxOps']
    inv='C22Coded' if d['coded'] else 'C22'
    pr='C22RCoded' if d['coded'] else 'C22R'
    s='SPECIFICATION %s\nCONSTANTS\n' % ('SimSpec' if d['sim'] else 'Spec')
    if d['sim']: s+='  WP = 8\n  WD = 8\n  WU = 3\n'
    for c in ['NK','MaxOps','MaxLag','MaxResub','LiveLimit','Modes','Kinds','Pages','SSizes','Filts','Ops','MaxJumps','EpochCheck','Pres','N0s','Contig','DropStale']:
        s+='  %s = %s\n'%(c,d[c])
    if d['view']: s+='VIEW View\n'
    s+=('INVARIANTS TypeOK\nCHECK_DEADLOCK FALSE\n' if d['noinv'] else 'INVARIANTS TypeOK %s\nPROPERTIES %s C16M\nCHECK_DEADLOCK FALSE\n'%(inv,pr))
    open(os.path.join(D,name),'w').write(s)
ALLK='{"fresh", "rlive", "rstream"}'


ALLF='{"none", "client", "server"}'
FILT='{"client", "server"}'
EPHOPS='{"pub", "rem", "exp", "clear", "refresh"}'
STROPS='{"pub", "rem", "exp", "sexp", "clear", "refresh", "poscheck"}'
# ---- quick (exhaustive)
cfg('quick_eph.cfg', Modes='{"eph"}', SSizes='{1}', Filts=ALLF, Ops=EPHOPS)
for nm, ct, ds in (('coded', 'FALSE', 'FALSE'), ('fixed', 'TRUE', 'FALSE'), ('fixed2', 'TRUE', 'TRUE')):
    cd = ct == 'FALSE'
    cfg('quick_stream_%s.cfg' % nm, Modes='{"rec"}', Kinds=ALLK, MaxOps=2, Filts='{"none", "client"}', Ops=STROPS, Contig=ct, DropStale=ds, coded=cd)
    cfg('quick_filt_%s.cfg' % nm, Modes='{"rec"}', Kinds=ALLK, MaxOps=2, Pages='{1}', Filts=FILT, Ops=STROPS, Contig=ct, DropStale=ds, coded=cd)
    # ---- thorough (exhaustive)
    cfg('thorough_rec_%s.cfg' % nm, Modes='{"rec"}', Kinds=ALLK, MaxOps=3, Filts='{"none", "client"}', Ops=STROPS, N0s='{0, 2}', Contig=ct, DropStale=ds, coded=cd)
    cfg('thorough_per_%s.cfg' % nm, Modes='{"per"}', Kinds=ALLK, MaxOps=3, Filts='{"none"}', Ops=STROPS, N0s='{0, 2}', Contig=ct, DropStale=ds, coded=cd)
    cfg('thorough_filt_%s.cfg' % nm, Modes='{"rec"}', Kinds=ALLK, MaxOps=3, Pages='{1}', Filts=FILT, Ops=STROPS, Contig=ct, DropStale=ds, coded=cd)
    # ---- out-of-order client moves (LIVE / STREAM request while state pages are pending, LIVE join from any page, STATE page after STREAM pages)
    cfg('quick_jump_%s.cfg' % nm, Modes='{"rec"}', Kinds='{"fresh"}', MaxOps=2, Pages='{1}', Filts='{"none", "server"}', Ops=STROPS, N0s='{2}', MaxJumps=1, Contig=ct, DropStale=ds, coded=cd)
    cfg('thorough_jump_%s.cfg' % nm, Modes='{"rec"}', Kinds='{"fresh", "rstream"}', MaxOps=3, Filts='{"none", "server"}', Ops=STROPS, N0s='{2}', MaxJumps=2, Contig=ct, DropStale=ds, coded=cd)
    # ---- simulation (behaviour generators for the replay; no VIEW)
    cfg('sim_%s.cfg' % nm, Modes='{"eph", "rec", "per"}', Kinds=ALLK, MaxOps=5, Filts=ALLF, Ops=STROPS, Pres='{0, 1}', N0s='{0, 1, 2}', MaxJumps=1, Contig=ct, DropStale=ds, coded=True, view=False, sim=True)
    cfg('sim_filt_%s.cfg' % nm, Modes='{"eph", "rec", "per"}', Kinds=ALLK, MaxOps=5, Filts=FILT, Ops=STROPS, Pres='{0, 1}', N0s='{0, 1, 2}', MaxJumps=1, Contig=ct, DropStale=ds, coded=True, view=False, sim=True)
cfg('thorough_eph.cfg', Modes='{"eph"}', SSizes='{1}', MaxOps=4, Filts=ALLF, Ops=EPHOPS)
cfg('thorough_jump_eph.cfg', Modes='{"eph"}', SSizes='{1}', MaxOps=3, Filts=ALLF, Ops=EPHOPS, N0s='{2}', MaxJumps=1)
# the full property on the code as it is: expected to be violated (documents the findings at model level)
cfg('full_eph.cfg', Modes='{"eph"}', SSizes='{1}', MaxOps=2, Filts='{"none"}', Ops='{"pub", "rem", "exp"}', coded=False)
cfg('full_stream_coded.cfg', Modes='{"per"}', Kinds=ALLK, MaxOps=3, Filts='{"none"}', Ops='{"pub", "rem", "sexp"}', Contig='FALSE', coded=False)
# PUB/SUB lag of two deliveries (what an asynchronous broker can do; the memory broker cannot)
cfg('lag2_coded.cfg', Modes='{"per"}', Kinds=ALLK, MaxOps=3, MaxLag=2, Filts='{"none"}', Ops='{"pub", "rem"}', Contig='TRUE', coded=False)
cfg('lag2_fixed.cfg', Modes='{"per"}', Kinds=ALLK, MaxOps=3, MaxLag=2, Filts='{"none"}', Ops='{"pub", "rem"}', Contig='TRUE', DropStale='TRUE', coded=False)
# replay generator with a PUB/SUB lag of two deliveries (not part of the checks; documents the stale-buffered-publication finding)
cfg('sim_lag2_fixed.cfg', Modes='{"rec", "per"}', Kinds='{"fresh"}', MaxOps=4, MaxLag=2, Filts='{"none"}', Ops='{"pub", "rem"}', Pres='{0, 1}', N0s='{0, 1, 2}', Contig='TRUE', coded=True, view=False, sim=True, noinv=True)
# with both repairs: PUB/SUB lag of two deliveries, full property
cfg('sim_lag2_fixed2.cfg', Modes='{"rec", "per"}', Kinds=ALLK, MaxOps=4, MaxLag=2, Filts='{"none", "client"}', Ops='{"pub", "rem", "exp", "sexp"}', Pres='{0, 1}', N0s='{0, 1, 2}', Contig='TRUE', DropStale='TRUE', coded=False, view=False, sim=True)

# witness: without the epoch comparison for STATE->LIVE a Clear between the top probe and the live read goes unnoticed (expected to violate C22)
cfg('witness_clear_probe.cfg', Modes='{"per"}', Kinds='{"fresh"}', MaxOps=2, Pages='{2}', SSizes='{2}', Filts='{"none"}', Ops='{"pub", "clear"}', EpochCheck='FALSE', Contig='TRUE', DropStale='TRUE', coded=False)
